(* C02: enum wire encoding (variant names, tag and content keys) equals serde's.
   What a generated enum is expected to look like ([c02_expect]: read off the Rust SOURCE the way
   serde reads it, through Spec.Serde; or off an IR value), the verdict [good_C02] on the
   language-independent observation of the generated declarations (Model.Lang.Decl: data types
   only), the property's quantifier [dom_C02] and the finding classes [known_C02] of the unchanged
   tree.  All computable; nothing here calls the model (Model.Syntax / Model.Types /
   Model.Lang.Decl are the data types of the AST, the IR and the observation). *)
From Coq Require Import String.
From TS Require Import Model.Str Model.Unicode Model.Syntax Model.Types Model.Lang.Decl
                       Spec.SerdeCase Spec.C16Spec Spec.Serde Spec.TargetOsRule Spec.C03Spec.

Definition c02_cls (s : string) : option string := Some s.

(* payload kind of a variant *)
Inductive c02_kind := C02Unit | C02Newtype | C02Struct.
Definition c02_kind_eqb (a b : c02_kind) : bool :=
  match a, b with C02Unit, C02Unit | C02Newtype, C02Newtype | C02Struct, C02Struct => true | _, _ => false end.

(* ---------- what an enum is expected to look like on the foreign side ---------- *)
Record c02_expect := {
  c02_idents : list str;            (* Rust identifiers of the generated (non-skipped) variants, in order *)
  c02_wires : list str;             (* serde's wire name of each *)
  c02_kinds : list c02_kind;        (* unit / newtype / struct variant *)
  c02_keys : option (str * str)     (* None: unit enum; Some (tag, content): adjacently tagged *)
}.

(* ... read off an IR value (ground truth of the back-end theorems and of IR-level cases) *)
Definition c02_rvariant_kind (v : rvariant) : c02_kind :=
  match v with VUnit _ => C02Unit | VTuple _ _ => C02Newtype | VAnon _ _ => C02Struct end.
Definition c02_expect_ir (e : renum) : c02_expect :=
  let vs := evariants (enum_shared e) in
  {| c02_idents := map (fun v => original (vid (variant_shared v))) vs;
     c02_wires := map (fun v => renamed (vid (variant_shared v))) vs;
     c02_kinds := map c02_rvariant_kind vs;
     c02_keys := match e with EUnit _ => None | EAlgebraic t c _ => Some (t, c) end |}.

(* ... read off the Rust source the way serde reads it (Spec.Serde: variant_name = serde(rename),
   else rename_all applied by serde_derive's case.rs, else the identifier; tag / content = the
   strings of the serde attributes).  None = serde_derive itself rejects the program. *)
Fixpoint c02_all_some {A} (l : list (option A)) : option (list A) :=
  match l with
  | [] => Some []
  | None :: _ => None
  | Some x :: r => match c02_all_some r with Some xs => Some (x :: xs) | None => None end
  end.
Definition c02_variant_kind (v : variant) : c02_kind :=
  match v_fields v with FUnit => C02Unit | FUnnamed _ => C02Newtype | FNamed _ => C02Struct end.

Section U.
Variable uc : unicode.
Variable T : list str.            (* --target-os *)

Definition c02_live (vs : list variant) : list variant :=
  filter (fun v => negb (member_skipped T (v_attrs v))) vs.

Definition c02_expect_src (attrs : list attr) (vs : list variant) : option c02_expect :=
  let live := c02_live vs in
  match c02_all_some (map (fun v => variant_name uc (serde_nv attrs (lit "rename_all")) (v_attrs v) (v_ident v)) live) with
  | None => None
  | Some ws =>
    Some {| c02_idents := map (fun v => unraw (v_ident v)) live;
            c02_wires := ws;
            c02_kinds := map c02_variant_kind live;
            c02_keys := match serde_nv attrs (lit "tag"), serde_nv attrs (lit "content") with
                        | Some t, Some c => Some (t, c)
                        | _, _ => None
                        end |}
  end.
End U.

(* ---------- the verdict on an observation ---------- *)
Fixpoint c02_strs_eqb (a b : list str) : bool :=
  match a, b with
  | [], [] => true
  | x :: a', y :: b' => str_eqb x y && c02_strs_eqb a' b'
  | _, _ => false
  end.
Fixpoint c02_kinds_eqb (a b : list c02_kind) : bool :=
  match a, b with
  | [], [] => true
  | x :: a', y :: b' => c02_kind_eqb x y && c02_kinds_eqb a' b'
  | _, _ => false
  end.

(* some element is related to a LATER one *)
Fixpoint c02_has_pair (R : str -> str -> bool) (l : list str) : bool :=
  match l with
  | [] => false
  | x :: r => existsb (R x) r || c02_has_pair R r
  end.
Definition c02_distinct (l : list str) : bool := negb (c02_has_pair str_eqb l).

Definition c02_is_nil {A} (l : list A) : bool := match l with [] => true | _ => false end.
Definition c02_has_data (ks : list c02_kind) : bool :=
  existsb (fun k => match k with C02Unit => false | _ => true end) ks.

(* does the language's output have to spell the tag key of an enum with these variants at least
   once?  (TS: in every union member; Swift: ContainerCodingKeys, init(from:), every encode arm;
   Go: the struct tag and the two anonymous structs of Unmarshal/MarshalJSON; Python: the Literal
   field of every variant class; Kotlin / Scala never write it) *)
Definition c02_tag_carried (l : lang) (ks : list c02_kind) : bool :=
  match l with
  | TypeScript | Python => negb (c02_is_nil ks)
  | Swift | Go => true
  | Kotlin | Scala => false
  end.
(* ... and the content key? (TS spells `content?: undefined` even in a unit member) *)
Definition c02_content_carried (l : lang) (ks : list c02_kind) : bool :=
  match l with
  | TypeScript => negb (c02_is_nil ks)
  | Swift | Go => true
  | Kotlin | Scala | Python => c02_has_data ks
  end.

Definition c02_is_enum_decl (d : decl) : bool := match d_kind d with DEnum => true | _ => false end.
Definition c02_payload_kind (p : payload) : c02_kind :=
  match p with PayUnit => C02Unit | PayNewtype _ _ => C02Newtype | PayInline _ | PayRef _ _ => C02Struct end.

(* facet 1: one case per variant, in order, identified on the wire by serde's name *)
Definition c02_good_wires (x : c02_expect) (d : decl) : bool :=
  c02_strs_eqb (map vd_wire (d_variants d)) (c02_wires x).
(* facet 2: the payload kind of each case is the variant's *)
Definition c02_good_kinds (x : c02_expect) (d : decl) : bool :=
  c02_kinds_eqb (map (fun v => c02_payload_kind (vd_payload v)) (d_variants d)) (c02_kinds x).
(* facet 3: EVERY spelled-out tag / content key is serde's, and the key is there where the
   language's encoding needs it *)
Definition c02_good_keys (l : lang) (x : c02_expect) (d : decl) : bool :=
  match c02_keys x with
  | None => c02_is_nil (d_tag_keys d) && c02_is_nil (d_content_keys d)
  | Some (t, c) =>
    forallb (str_eqb t) (d_tag_keys d) && forallb (str_eqb c) (d_content_keys d) &&
    (negb (c02_tag_carried l (c02_kinds x)) || negb (c02_is_nil (d_tag_keys d))) &&
    (negb (c02_content_carried l (c02_kinds x)) || negb (c02_is_nil (d_content_keys d)))
  end.
Definition c02_good_enum (l : lang) (x : c02_expect) (d : decl) : bool :=
  c02_good_wires x d && c02_good_kinds x d && c02_good_keys l x d.
(* facet 4: the cases of every definition that has cases (the enum; Python's <Enum>Types) carry
   pairwise different names: no two variants collapse into one foreign case *)
Definition c02_good_cases (ds : list decl) : bool :=
  forallb (fun d => c02_distinct (map vd_name (d_variants d))) ds.

(* [ds]: the observation of the definitions generated for ONE enum (helper structs and helper
   enums included): exactly one of them is the enum *)
Definition c02_good_core (l : lang) (x : c02_expect) (ds : list decl) : bool :=
  match filter c02_is_enum_decl ds with
  | [d] => c02_good_enum l x d
  | _ => false
  end.
Definition good_C02 (l : lang) (x : c02_expect) (ds : list decl) : bool :=
  c02_good_core l x ds && c02_good_cases ds.

(* ---------- quantifier ---------- *)
Definition c02_key_char (c : char) : bool := is_aalpha c || is_adigit c || (c =? ch_us) || (c =? ch_dash).
(* [A-Za-z_][A-Za-z0-9_-]* : serde(rename) values, and what the eight rules make of identifiers *)
Definition c02_wire_ok (s : str) : bool :=
  match s with
  | [] => false
  | c :: r => (is_aalpha c || (c =? ch_us)) && forallb c02_key_char r
  end.
(* [A-Za-z_][A-Za-z0-9_]* *)
Definition c02_ident_ok (s : str) : bool := c02_wire_ok s && negb (contains_char ch_dash s).
Definition c02_opt_ok (p : str -> bool) (o : option str) : bool := match o with None => true | Some s => p s end.

(* on an expectation: UpperCamelCase identifiers, pairwise different; wire names over the key
   alphabet, pairwise different (two variants with one wire name cannot be told apart by serde
   either); tag and content keys two different identifiers (serde_derive rejects tag = content);
   a unit enum has only unit variants, an adjacently tagged one at least one variant with data
   (typeshare rejects the other combinations with an error: no enum is generated) *)
Definition dom_C02_back (x : c02_expect) : bool :=
  forallb conv_variant (c02_idents x) && c02_distinct (c02_idents x) &&
  forallb c02_wire_ok (c02_wires x) && c02_distinct (c02_wires x) &&
  match c02_keys x with
  | Some (t, c) => c02_ident_ok t && c02_ident_ok c && negb (str_eqb t c) && c02_has_data (c02_kinds x)
  | None => negb (c02_has_data (c02_kinds x))
  end.

(* on the source: the attribute values are spelled over the key alphabet (what the quantifier says:
   renames over [A-Za-z_][A-Za-z0-9_-]*, one of the rule names or any other word for rename_all,
   identifiers for tag / content), tag and content come together, every cfg attribute of a variant
   is a well-formed predicate, and the expectation serde defines is in the domain above *)
Definition c02_lex (T : list str) (attrs : list attr) (vs : list variant) : bool :=
  c02_opt_ok (forallb c02_key_char) (serde_nv attrs (lit "rename_all")) &&
  c02_opt_ok c02_ident_ok (serde_nv attrs (lit "tag")) && c02_opt_ok c02_ident_ok (serde_nv attrs (lit "content")) &&
  match serde_nv attrs (lit "tag"), serde_nv attrs (lit "content") with
  | Some _, Some _ | None, None => true
  | _, _ => false
  end &&
  forallb (fun v => cfg_parsable (v_attrs v)) vs &&
  forallb (fun v => conv_variant (unraw (v_ident v)) && c02_opt_ok c02_wire_ok (serde_nv (v_attrs v) (lit "rename")))
          (c02_live T vs).
Definition dom_C02 (uc : unicode) (T : list str) (attrs : list attr) (vs : list variant) : bool :=
  c02_lex T attrs vs &&
  match c02_expect_src uc T attrs vs with Some x => dom_C02_back x | None => false end.

(* ---------- finding classes of the unchanged tree ---------- *)
(* Front end (all languages): an all-upper-case variant identifier (URL, TOTP, AB1: C16's class
   variant-allcaps) WITHOUT a serde(rename) of its own, under one of the six word-splitting rules:
   typeshare lower-cases the identifier as a whole first (rename.rs:28-32,53) and gives
   Url / url / url / URL / url / URL, serde gives URL / uRL / u_r_l / U_R_L / u-r-l / U-R-L.
   (Under lowercase / UPPERCASE / an unknown rule / no rule the two agree.) *)
Definition c02_splitting_rule (rs : option str) : bool :=
  match rs with
  | None => false
  | Some s => match rule_from_str s with
              | Some LowerCase | Some UpperCase | None => false
              | Some _ => true
              end
  end.
Definition c02_allcaps_exposed (T : list str) (attrs : list attr) (vs : list variant) : bool :=
  c02_splitting_rule (serde_nv attrs (lit "rename_all")) &&
  existsb (fun v => match serde_nv (v_attrs v) (lit "rename") with
                    | Some _ => false
                    | None => allcaps (unraw (v_ident v))
                    end) (c02_live T vs).
Definition known_C02_front (T : list str) (attrs : list attr) (vs : list variant) : option string :=
  if c02_allcaps_exposed T attrs vs then c02_cls "C02-allcaps" else None.

(* Back ends: two variants collapse into ONE foreign case name.
   - Swift (both enum forms) names a case camelCase(identifier), Kotlin (sealed class) names the
     subclass PascalCase(identifier), both through typeshare's own rename.rs, which lower-cases an
     all-upper-case identifier as a whole: URL and Url both become url / Url.  [c02_caps_norm] is
     that normal form on UpperCamelCase identifiers.
   - Python, unit enum: the members of `class E(str, Enum)` are named UPPERCASE(identifier): FooBar
     and Foobar both become FOOBAR.
   - Python, algebraic enum: the members of `<Enum>Types` are named UPPERCASE(snake_case(wire name))
     (crate convert_case: boundaries at _ - space, lower|Upper, letter|digit, digit|letter and in
     front of the last capital of an acronym followed by a lowercase letter): the wire names fooBar /
     foo_bar / foo-bar / FooBar all become FOO_BAR; every variant class then refers to the FIRST member
     of that name, i.e. carries another variant's wire name.  [c02_py_key] is that member name on
     ASCII strings.
   - Go with a non-empty uppercase_acronyms list rewrites the identifier inside the constant's name
     (UserId and UserID both become ...UserID with ["ID"]).  known_C02_back's Go arm is an
     OVER-approximation (two identifiers equal up to ASCII case, whatever the acronym list); the EXACT
     class for a given list is known_C02_back_go below (two identifiers rewritten to one string), used
     by the check and proved equivalent to the failure of the verdict (Props C02_back_go_exact). *)
Definition c02_caps_norm (s : str) : str :=
  match s with
  | [] => []
  | c :: r => if str_eqb (str_upper_ascii s) s then c :: str_lower_ascii r else s
  end.
Definition c02_caps_eq (a b : str) : bool := str_eqb (c02_caps_norm a) (c02_caps_norm b).
Definition c02_upper_eq (a b : str) : bool := str_eqb (str_upper_ascii a) (str_upper_ascii b).

Definition c02_sep (c : char) : bool := (c =? ch_us) || (c =? ch_dash) || (c =? ch_sp).
Definition c02_two (p c : char) : bool :=
  (is_alower p && is_aupper c) || (is_aupper p && is_adigit c) || (is_adigit p && is_aupper c) ||
  (is_adigit p && is_alower c) || (is_alower p && is_adigit c).
Definition c02_three (p c n : char) : bool := is_aupper p && is_aupper c && is_alower n.
Fixpoint c02_words (prev : option char) (s : str) (word : str) : list str :=
  match s with
  | [] => [word]
  | c :: r =>
    if c02_sep c then word :: c02_words (Some c) r []
    else if match prev with Some p => c02_two p c | None => false end
            || match prev, r with Some p, n :: _ => c02_three p c n | _, _ => false end
         then word :: c02_words (Some c) r [c]
         else c02_words (Some c) r (word ++ [c])
  end.
Definition c02_py_key (s : str) : str :=
  str_upper_ascii (join [ch_us] (map str_lower_ascii
    (filter (fun w => match w with [] => false | _ => true end) (c02_words None s [])))).
Definition c02_py_key_eq (a b : str) : bool := str_eqb (c02_py_key a) (c02_py_key b).

Definition known_C02_back (l : lang) (acronyms : bool) (x : c02_expect) : option string :=
  match l with
  | Python =>
    match c02_keys x with
    | None => if c02_has_pair c02_upper_eq (c02_idents x) then c02_cls "C02-python-unit-member-collision" else None
    | Some _ => if c02_has_pair c02_py_key_eq (c02_wires x) then c02_cls "C02-python-types-member-collision" else None
    end
  | Swift => if c02_has_pair c02_caps_eq (c02_idents x) then c02_cls "C02-swift-case-collision" else None
  | Kotlin =>
    match c02_keys x with
    | None => None
    | Some _ => if c02_has_pair c02_caps_eq (c02_idents x) then c02_cls "C02-kotlin-case-collision" else None
    end
  | Go => if acronyms && c02_has_pair c02_upper_eq (c02_idents x) then c02_cls "C02-go-acronym-case-collision" else None
  | TypeScript | Scala => None
  end.

(* ---------- Go's acronym rewriting as a specification (ASCII strings) ----------
   For each acronym: its PascalCase form (rename.rs: `_` dropped, the first letter and every letter after a
   `_` upper-cased, the others lower-cased when the acronym is all upper case, kept otherwise) is searched in
   the identifier (leftmost, non-overlapping); an occurrence followed by a non-lowercase character or by the
   end is ACCEPTED; the letters at the positions covered by an accepted occurrence of some acronym are
   upper-cased.  (Proofs/C02_Go.v: this IS the model's go_convert_acronyms_to_uppercase on ASCII input.)
   It makes the Go class EXACT: two variants collide iff their identifiers are rewritten to one string. *)
Fixpoint c02_go_pascal_go (tolow cap : bool) (s : str) : str :=
  match s with
  | [] => []
  | c :: r => if c =? ch_us then c02_go_pascal_go tolow true r
              else if cap then aupper c :: c02_go_pascal_go tolow false r
              else (if tolow then alower c else c) :: c02_go_pascal_go tolow false r
  end.
Definition c02_go_pascal (a : str) : str := c02_go_pascal_go (str_eqb (str_upper_ascii a) a) true a.
Fixpoint c02_go_matches (fuel : nat) (p s : str) (off : nat) : list nat :=
  match fuel with
  | O => []
  | S f =>
    match s with
    | [] => []
    | c :: r => if starts_with p s
                then off :: c02_go_matches f p (skipn (List.length p) s) (off + List.length p)%nat
                else c02_go_matches f p r (S off)
    end
  end.
Definition c02_go_idx (p s : str) : list nat :=
  match p with
  | [] => seq 0 (S (List.length s))          (* an empty pattern matches everywhere and covers nothing *)
  | _ => c02_go_matches (S (List.length s)) p s 0
  end.
Definition c02_go_accept (name : str) (i L : nat) : bool :=
  match nth_error name (i + L)%nat with Some c => negb (is_alower c) | None => true end.
Definition c02_go_in (i L k : nat) : bool := Nat.leb i k && Nat.ltb k (i + L)%nat.
Definition c02_go_cover1 (p name : str) (k : nat) : bool :=
  existsb (fun i => c02_go_accept name i (List.length p) && c02_go_in i (List.length p) k) (c02_go_idx p name).
Definition c02_go_cover (pats : list str) (name : str) (k : nat) : bool :=
  existsb (fun p => c02_go_cover1 p name k) pats.
Fixpoint c02_go_apply (cov : nat -> bool) (k : nat) (s : str) : str :=
  match s with
  | [] => []
  | c :: r => (if cov k then aupper c else c) :: c02_go_apply cov (S k) r
  end.
Definition c02_go_rewrite (acronyms : list str) (name : str) : str :=
  c02_go_apply (c02_go_cover (map c02_go_pascal acronyms) name) 0 name.
Definition c02_go_same_name (acronyms : list str) (a b : str) : bool :=
  str_eqb (c02_go_rewrite acronyms a) (c02_go_rewrite acronyms b).

(* the EXACT Go class, for a given (ASCII) acronym list: contained in the over-approximation of known_C02_back
   (C02_go_exact_in_class) and equivalent to the failure of the verdict (C02_back_go_exact) *)
Definition known_C02_back_go (acronyms : list str) (x : c02_expect) : option string :=
  if c02_has_pair (c02_go_same_name acronyms) (c02_idents x) then c02_cls "C02-go-acronym-case-collision" else None.
Definition known_C02_go (acronyms : list str) (uc : unicode) (T : list str) (attrs : list attr) (vs : list variant)
  : option string :=
  match known_C02_front T attrs vs with
  | Some k => Some k
  | None => match c02_expect_src uc T attrs vs with
            | Some x => known_C02_back_go acronyms x
            | None => None
            end
  end.

(* [acronyms]: Go's uppercase_acronyms list is not empty *)
Definition known_C02 (l : lang) (acronyms : bool) (uc : unicode) (T : list str) (attrs : list attr) (vs : list variant)
  : option string :=
  match known_C02_front T attrs vs with
  | Some k => Some k
  | None => match c02_expect_src uc T attrs vs with
            | Some x => known_C02_back l acronyms x
            | None => None
            end
  end.
