(* C15, Go, whole items WITHOUT the neutrality hypothesis: the decidable input class on which the code go.rs
   writes around the `// ` comment fragments is proved to keep the reference lexer of Spec/Lexers.v (cfg_go) in
   code mode.  Nothing here refers to the model of typeshare.

   What the Go reference lexer reacts to in code position: `/` (may open a comment), double and single quote (interpreted
   string / rune literal), the backtick (raw string literal).  Inside a raw string only the backtick matters; inside
   an interpreted string a backslash escapes the next character and a double quote / LF end the literal.

   go.rs prints identifiers in four ways:
   * bare, in code: type / field / constant / method / receiver names (after to_pascal_case, to_camel_case and the
     acronym rewriting of go.rs:579, which on ASCII input only changes the case of letters), generic parameters,
     the identifiers of types, verbatim type overrides and type_mappings targets, decimal constants;
   * through {:?} in code position: the wire names of enum variants (`Const Type = <wire>`);
   * through {:?} inside a raw string: the JSON key of a struct tag and the tag key of the enum struct;
   * verbatim inside a raw string: the tag and content keys of UnmarshalJSON / MarshalJSON.

   [c15_go_code s]: every character of s is a printable ASCII character other than `/`, the double quote, the single quote and the
   backtick - an identifier `[A-Za-z_][A-Za-z0-9_]*`, a dashed key, a type text such as `map[string]*Foo` are all of
   this kind.  ASCII because the names pass through the acronym rewriting, whose byte / character arithmetic is
   only well behaved there (Proofs/GoAcronyms.v); printable so that a name cannot carry a line break into the
   comment typeshare generates for a helper struct.
   [c15_go_tag s]: no control character, no U+2028/9 (c15_lit_char) and no backtick: what may be printed through
   {:?} inside a raw string.  Quotes, backslashes, slashes, non-ASCII characters are fine.
   [c15_lit_str s] (Spec/C15Render.v): what may be printed through {:?} in code position. *)
From Coq Require Import List NArith Bool String.
From TS Require Import Model.Str Model.Types Spec.Lexers Spec.C15Spec Spec.C15Render.
Import ListNotations.
Local Open Scope N_scope.

Definition c15_go_code_char (c : char) : bool :=
  (32 <=? c) && (c <? 127) && negb (c =? ch_slash) && negb (c =? ch_dq) && negb (c =? ch_sq) && negb (c =? ch_btick).
Definition c15_go_code (s : str) : bool := forallb c15_go_code_char s.

Definition c15_go_tag_char (c : char) : bool := c15_lit_char c && negb (c =? ch_btick).
Definition c15_go_tag (s : str) : bool := forallb c15_go_tag_char s.

(* every identifier of a type expression of the IR *)
Fixpoint c15_go_rtype (t : rtype) : bool :=
  match t with
  | RSimple id => c15_go_code id
  | RGeneric id ps => c15_go_code id && forallb c15_go_rtype ps
  | RVec x | RArray x _ | RSlice x | ROption x => c15_go_rtype x
  | RHashMap k v => c15_go_rtype k && c15_go_rtype v
  | RPrim _ => true
  end.

(* the target texts of type_mappings *)
Definition c15_go_mappings_ok (m : list (str * str)) : bool := forallb (fun kv => c15_go_code (snd kv)) m.

(* a field: the Rust name (printed bare, in PascalCase), the JSON key (struct tag), the type or its verbatim override *)
Definition c15_go_field_ok (f : rfield) : bool :=
  c15_go_code (original (fid f)) && c15_go_tag (renamed (fid f)) &&
  match type_override f Go with Some o => c15_go_code o | None => c15_go_rtype (fty f) end.

(* a variant: the Rust name (part of constant, method and helper-struct names), the wire name ({:?} in code) *)
Definition c15_go_variant_ok (v : rvariant) : bool :=
  c15_go_code (original (vid (variant_shared v))) && c15_lit_str (renamed (vid (variant_shared v))) &&
  match v with
  | VUnit _ => true
  | VTuple t _ => c15_go_rtype t
  | VAnon fs _ => forallb c15_go_field_ok fs
  end.

Definition c15_go_item_ok (it : ritem) : bool :=
  match it with
  | ItStruct s =>
    c15_go_code (renamed (sid s)) && forallb c15_go_code (sgenerics s) && forallb c15_go_field_ok (sfields s)
  | ItEnum e =>
    let sh := enum_shared e in
    c15_go_code (original (eid sh)) && forallb c15_go_code (egenerics sh) &&
    match e with EUnit _ => true | EAlgebraic tag content _ => c15_go_code tag && c15_go_code content end &&
    forallb c15_go_variant_ok (evariants sh)
  | ItAlias a => c15_go_code (original (aid a)) && c15_go_rtype (atype a)
  | ItConst c => c15_go_code (renamed (cid c)) && c15_go_rtype (ctype c)
  end.
