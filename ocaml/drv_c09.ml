(* C09: (c09 LANG CFG FILE TSTRS IMPL_OBS)
   parses FILE with the model's front end (the judgement's input: the parsed program before
   reconciliation), runs the model's back end on the reconciled program, reads the C09 observation off
   its declarations, and judges both that observation and the implementation's (IMPL_OBS, recovered
   from the real output by lib/extract.py) with the extracted good_C09 / c09_failures / c09_ref_class. *)
open Drv_base
open Drv_ast
open Drv_gen

let c09_lang = function
  | "go" -> Model.Go | "kotlin" -> Model.Kotlin | "scala" -> Model.Scala | "swift" -> Model.Swift
  | "typescript" -> Model.TypeScript | "python" -> Model.Python
  | l -> raise (Bad ("c09 lang " ^ l))

let c09_of_pos = function
  | Model.C9Field -> A "field" | Model.C9Payload -> A "payload" | Model.C9Alias -> A "alias"
  | Model.C9Parent -> A "parent" | Model.C9Const -> A "const"
let c09_to_pos = function
  | A "field" -> Model.C9Field | A "payload" -> Model.C9Payload | A "alias" -> Model.C9Alias
  | A "parent" -> Model.C9Parent | A "const" -> Model.C9Const
  | _ -> raise (Bad "c09 pos")

let c09_of_ref (r : Model.c09_ref) : sx = L [str_to_atom r.Model.c9_in; c09_of_pos r.Model.c9_pos; str_to_atom r.Model.c9_name]
let c09_to_ref = function
  | L [i; p; n] -> { Model.c9_in = to_str i; Model.c9_pos = c09_to_pos p; Model.c9_name = to_str n }
  | _ -> raise (Bad "c09 ref")
let c09_of_obs (o : Model.c09_obs) : sx = L [of_list str_to_atom o.Model.c9_defs; of_list c09_of_ref o.Model.c9_refs]
let c09_to_obs = function
  | L [defs; refs] -> { Model.c9_defs = to_list to_str defs; Model.c9_refs = to_list c09_to_ref refs }
  | _ -> raise (Bad "c09 obs")

let c09_judge l pfx acrs pd (o : Model.c09_obs) : sx =
  L [ of_bool (Model.good_C09 l pfx pd o);
      of_list (fun r -> L [c09_of_ref r; of_opt (fun c -> A (coqstring c)) (Model.c09_ref_class l pfx acrs pd r)])
        (Model.c09_failures l pfx pd o) ]

let c09 args =
  match args with
  | [A lang; cfg; file; tstrs; impl_obs] ->
    let l = c09_lang lang in
    let pfx = match lang with "kotlin" | "swift" -> cfg_str cfg "prefix" | _ -> [] in
    let acrs = match lang with "go" -> cfg_strs cfg "uppercase_acronyms" | _ -> [] in
    (match Model.parse_file uc (to_tstr tstrs) [] (to_file file) with
     | Model.Ok (Some pd) when pd.Model.p_errors = [] ->
       let m = decls_of lang cfg (reconcile_single pd) in
       L [ A "ok";
           of_bool (Model.dom_C09 l pfx pd);
           of_opt (fun c -> A (coqstring c)) (Model.known_C09 l pfx acrs pd);
           of_list (fun c -> A (coqstring c)) (List.filter_map (fun x -> x) (Model.c09_classes l pfx acrs pd));
           (match m with
            | Model.Ok fd -> let o = Model.c09_observe l fd in L [A "ok"; c09_of_obs o; c09_judge l pfx acrs pd o]
            | Model.Err e -> L [A "err"; perr_to_sx e]
            | Model.Panic s -> L [A "panic"; A (coqstring s)]);
           of_opt (fun o -> c09_judge l pfx acrs pd (c09_to_obs o)) (to_opt (fun x -> x) impl_obs) ]
     | Model.Ok _ -> L [A "noparse"]
     | Model.Err e -> L [A "parse_err"; perr_to_sx e]
     | Model.Panic s -> L [A "panic"; A (coqstring s)])
  | _ -> raise (Bad "c09 args")

let () = register "c09" c09
