open Drv_base

(* C20: configuration pipeline.  File contents are given by what toml makes of them:
   bytes := pconfig option (none = toml::from_str fails), parse := identity,
   ser := Some (present_config c) (every key written, target_os skipped).

   pconfig  ::= (swift typescript kotlin scala python go), each  none | (some (<keys>))
     swift: (prefix decorators constraints codablevoid type_mappings)   typescript: (type_mappings)
     kotlin: (package module_name prefix type_mappings)                  scala: (package module_name type_mappings)
     python: (type_mappings)                                             go: (package acronyms no_pointer_slice type_mappings)
     (single-field records are unboxed by extraction: p_typescript = amap option etc.)
     every key  none | (some v);  strings s.., lists (s.. s..), maps ((k v) ..), bool true/false
   fs       ::= ((path content) ..)   path ::= (s.. s..)   content ::= none | (some pconfig)
   options  ::= (lang swift_prefix kotlin_prefix java_package kotlin_module scala_package scala_module go_package
                 config_file generate_config output_folder target_os)
     lang none | (some swift|kotlin|scala|typescript|go|python); config_file none | (some (abs path)) | (some (rel path)) *)

let to_strs = to_list to_str
let to_map = to_list (function L [k; v] -> (to_str k, to_str v) | _ -> raise (Bad "pair expected"))
let of_strs = of_list str_to_atom
let of_map = of_list (fun (k, v) -> L [str_to_atom k; str_to_atom v])

let to_table f = to_opt f

let to_pconfig = function
  | L [sw; ts; kt; sc; py; go] ->
    { Model.pc_swift = to_table (function
        | L [a; b; c; d; e] -> { Model.psw_prefix = to_opt to_str a; Model.psw_default_decorators = to_opt to_strs b;
                                 Model.psw_default_generic_constraints = to_opt to_strs c;
                                 Model.psw_codablevoid_constraints = to_opt to_strs d; Model.psw_type_mappings = to_opt to_map e }
        | _ -> raise (Bad "swift table")) sw;
      Model.pc_typescript = to_table (function L [a] -> (to_opt to_map a : Model.p_typescript) | _ -> raise (Bad "typescript table")) ts;
      Model.pc_kotlin = to_table (function
        | L [a; b; c; d] -> { Model.pkt_package = to_opt to_str a; Model.pkt_module_name = to_opt to_str b;
                              Model.pkt_prefix = to_opt to_str c; Model.pkt_type_mappings = to_opt to_map d }
        | _ -> raise (Bad "kotlin table")) kt;
      Model.pc_scala = to_table (function
        | L [a; b; c] -> { Model.psc_package = to_opt to_str a; Model.psc_module_name = to_opt to_str b; Model.psc_type_mappings = to_opt to_map c }
        | _ -> raise (Bad "scala table")) sc;
      Model.pc_python = to_table (function L [a] -> (to_opt to_map a : Model.p_python) | _ -> raise (Bad "python table")) py;
      Model.pc_go = to_table (function
        | L [a; b; c; d] -> { Model.pgo_package = to_opt to_str a; Model.pgo_uppercase_acronyms = to_opt to_strs b;
                              Model.pgo_no_pointer_slice = to_opt to_bool c; Model.pgo_type_mappings = to_opt to_map d }
        | _ -> raise (Bad "go table")) go }
  | _ -> raise (Bad "pconfig")

let of_pconfig (p : Model.pconfig) : sx =
  let os = of_opt str_to_atom and ol = of_opt of_strs and om = of_opt of_map in
  L [ of_opt (fun (t : Model.p_swift) -> L [os t.Model.psw_prefix; ol t.Model.psw_default_decorators; ol t.Model.psw_default_generic_constraints;
                                            ol t.Model.psw_codablevoid_constraints; om t.Model.psw_type_mappings]) p.Model.pc_swift;
      of_opt (fun (t : Model.p_typescript) -> L [om t]) p.Model.pc_typescript;
      of_opt (fun (t : Model.p_kotlin) -> L [os t.Model.pkt_package; os t.Model.pkt_module_name; os t.Model.pkt_prefix; om t.Model.pkt_type_mappings]) p.Model.pc_kotlin;
      of_opt (fun (t : Model.p_scala) -> L [os t.Model.psc_package; os t.Model.psc_module_name; om t.Model.psc_type_mappings]) p.Model.pc_scala;
      of_opt (fun (t : Model.p_python) -> L [om t]) p.Model.pc_python;
      of_opt (fun (t : Model.p_go) -> L [os t.Model.pgo_package; ol t.Model.pgo_uppercase_acronyms; of_opt of_bool t.Model.pgo_no_pointer_slice;
                                         om t.Model.pgo_type_mappings]) p.Model.pc_go ]

let to_path = to_list to_str
let of_path = of_list str_to_atom

let to_fs = to_list (function L [p; c] -> (to_path p, to_opt to_pconfig c) | _ -> raise (Bad "fs entry"))

let to_lang = function
  | A "kotlin" -> Model.AKotlin | A "scala" -> Model.AScala | A "swift" -> Model.ASwift
  | A "typescript" -> Model.ATypescript | A "go" -> Model.AGo | A "python" -> Model.APython
  | _ -> raise (Bad "language")

let to_upath = function
  | L [A "abs"; p] -> Model.PAbs (to_path p)
  | L [A "rel"; p] -> Model.PRel (to_path p)
  | _ -> raise (Bad "upath")

let to_options = function
  | L [lang; sp; kp; jp; km; scp; scm; gp; cf; gen; folder; tos] ->
    { Model.o_language = to_opt to_lang lang; Model.o_swift_prefix = to_opt to_str sp; Model.o_kotlin_prefix = to_opt to_str kp;
      Model.o_java_package = to_opt to_str jp; Model.o_kotlin_module_name = to_opt to_str km;
      Model.o_scala_package = to_opt to_str scp; Model.o_scala_module_name = to_opt to_str scm;
      Model.o_go_package = to_opt to_str gp; Model.o_config_file = to_opt to_upath cf;
      Model.o_generate_config = to_bool gen; Model.o_output_folder = to_bool folder; Model.o_target_os = to_opt to_strs tos }
  | _ -> raise (Bad "options")

let of_backend (b : Model.backend) : sx =
  match b with
  | Model.BSwift b -> L [A "swift"; str_to_atom b.Model.bsw_prefix; of_map b.Model.bsw_type_mappings; of_strs b.Model.bsw_default_decorators;
                         of_strs b.Model.bsw_default_generic_constraints; of_bool b.Model.bsw_multi_file; of_strs b.Model.bsw_codablevoid_constraints]
  | Model.BKotlin b -> L [A "kotlin"; str_to_atom b.Model.bkt_package; str_to_atom b.Model.bkt_module_name; str_to_atom b.Model.bkt_prefix;
                          of_map b.Model.bkt_type_mappings]
  | Model.BScala b -> L [A "scala"; str_to_atom b.Model.bsc_package; str_to_atom b.Model.bsc_module_name; of_map b.Model.bsc_type_mappings]
  | Model.BTypeScript b -> L [A "typescript"; of_map b]
  | Model.BGo b -> L [A "go"; str_to_atom b.Model.bgo_package; of_map b.Model.bgo_type_mappings; of_strs b.Model.bgo_uppercase_acronyms;
                      of_bool b.Model.bgo_no_pointer_slice]
  | Model.BPython b -> L [A "python"; of_map b]

let of_err = function
  | Model.EGoPackageMissing -> A "EGoPackageMissing" | Model.EConfigExists -> A "EConfigExists"
  | Model.EConfigRead -> A "EConfigRead" | Model.EConfigParse -> A "EConfigParse"

let of_cres f = function
  | Model.COk a -> L (A "ok" :: f a)
  | Model.CErr e -> L [A "err"; of_err e]
  | Model.CPanic s -> L [A "panic"; A (String.map (fun c -> if c = ' ' then '_' else c) (coqstring s))]

let parse_id (b : Model.pconfig option) : Model.pconfig option = b
let ser_all (c : Model.config) : Model.pconfig option = Some (Model.present_config c)

(* (c20_gen fs cwd options): a generating run; model, specification, the file discovery finds, and
   whether the fuelled transliteration of the loop agrees with the structural walk *)
let c20_gen args =
  match args with
  | [fs; cwd; o] ->
    let fs = to_fs fs and cwd = to_path cwd and o = to_options o in
    let out = of_cres (fun (b, tos) -> [of_backend b; of_strs tos]) in
    let found = Model.find_configuration_file fs cwd in
    let looped = Model.find_loop (nat_of_int (List.length cwd + 1)) fs cwd in
    L [ L [A "model"; out (Model.generate_types parse_id fs cwd o)];
        L [A "spec"; out (Model.expected_generate parse_id fs cwd o)];
        L [A "found"; of_opt of_path found];
        L [A "nearest"; of_opt of_path (Model.nearest_config fs cwd)];
        L [A "loop_agrees"; of_bool (looped = Some found)] ]
  | _ -> raise (Bad "c20_gen")

(* (c20_store fs cwd options): the -g run; result and the entry added to the file system, if any *)
let c20_store args =
  match args with
  | [fs; cwd; o] ->
    let fs = to_fs fs and cwd = to_path cwd and o = to_options o in
    let out (fs', r) =
      let added = if List.length fs' = List.length fs + 1 then
          (match fs' with (p, Some c) :: _ -> L [A "some"; L [of_path p; of_pconfig c]] | _ -> A "none") else A "none" in
      let unchanged = List.length fs' = List.length fs && fs' = fs in
      L [of_cres (fun () -> []) r; added; of_bool unchanged] in
    L [ L [A "model"; out (Model.generate_config ser_all fs cwd o)];
        L [A "spec"; out (Model.expected_generate_config ser_all fs cwd o)] ]
  | _ -> raise (Bad "c20_store")

(* (c20_main fs cwd options): main's dispatch on -g, same answer shape as the two above *)
let c20_main args =
  match args with
  | [fs; cwd; o] ->
    let fs0 = to_fs fs and cwd = to_path cwd and o = to_options o in
    let (fs', r) = Model.cli_main ser_all parse_id fs0 cwd o in
    L [ of_cres (function None -> [A "stored"] | Some (b, tos) -> [of_backend b; of_strs tos]) r;
        of_bool (List.length fs' = List.length fs0) ]
  | _ -> raise (Bad "c20_main")

let () = register "c20_gen" c20_gen; register "c20_store" c20_store; register "c20_main" c20_main
