(* Swift back end: cfg keys -> Model.sw_config (the same keys harness/libdrive/src/gen.rs reads) *)
open Drv_base
open Drv_gen

let sw_config_of cfg =
  { Model.sw_prefix = cfg_str cfg "prefix";
    Model.sw_type_mappings = cfg_map cfg "type_mappings";
    Model.sw_default_decorators = cfg_strs cfg "default_decorators";
    Model.sw_default_generic_constraints = cfg_strs cfg "default_generic_constraints";
    Model.sw_codablevoid_constraints = cfg_strs cfg "codablevoid_constraints";
    Model.sw_no_version_header = cfg_bool cfg "no_version_header" true;
    Model.sw_version = cfg_str cfg "version" }

let () = register_backend "swift" (fun cfg pd -> Model.sw_generate uc (sw_config_of cfg) pd)
let () = register_decls "swift" (fun cfg pd -> Model.sw_file_decls uc (sw_config_of cfg) pd)
