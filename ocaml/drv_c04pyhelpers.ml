(* C04, Python: the extracted class of the open finding C04-python-option-drops-helpers (Spec/C04PyHelpers.v) on a cell handed in by
   checks/c04.py. No logic of its own. *)
open Drv_base

let to_int = function A a when String.length a > 1 && a.[0] = 'n' -> int_of_string (String.sub a 1 (String.length a - 1)) | _ -> raise (Bad "nN expected")

(* (c04_py_helpers_cls RUST_BASE nDEPTH MARKER BASE TWIN) -> true | false *)
let c04_py_helpers_cls args =
  match args with
  | [rb; d; m; b; t] -> A (if Model.c04_py_option_drops_helpers (to_str rb) (nat_of_int (to_int d)) (to_bool m) (to_str b) (to_str t) then "true" else "false")
  | _ -> raise (Bad "c04_py_helpers_cls args")

let () = register "c04_py_helpers_cls" c04_py_helpers_cls
