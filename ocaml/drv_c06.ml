open Drv_base
open Drv_ast
open Drv_gen

(* (c06_gen LANG CFG ((FILE TSTRS) ...))  files in ARRIVAL order, single-file mode -> generated text *)
let c06_gen args =
  match args with
  | [A lang; cfg; files] ->
    let parsed = List.filter_map (function
      | L [file; tstrs] ->
        (match Model.parse_file uc (to_tstr tstrs) [] (to_file file) with
         | Model.Ok (Some pd) -> Some pd
         | Model.Ok None -> None
         | _ -> raise (Bad "c06: a file does not parse in the model"))
      | _ -> raise (Bad "c06 file")) (match files with L l -> l | _ -> raise (Bad "files")) in
    if List.exists (fun pd -> pd.Model.p_errors <> []) parsed then A "parse_errors"
    else outcome_to_sx str_to_atom (generate lang cfg (Model.single_file_input parsed))
  | _ -> raise (Bad "c06_gen args")

let () = register "c06_gen" c06_gen
