(* ---- C15: doc text stays inside comments ----
   (c15 LANG ((POS (DOC ..)) ..) TEXT) -> the extracted verdict predicates of Spec/C15Spec.v on a generated file:
     (known K) (reproduced B) (contained B) (good B) (unsafe (DOC ..)) (obs S)
   obs: one number per character of TEXT (as a string atom): 0 = not doc text, otherwise the lexer mode tag
   (+10 when the character is not comment text or ends its comment). *)
open Drv_base

let to_c15_lang = function
  | A "typescript" -> Model.C15ts | A "kotlin" -> Model.C15kt | A "swift" -> Model.C15sw
  | A "scala" -> Model.C15sc | A "go" -> Model.C15go | A "python" -> Model.C15py
  | _ -> raise (Bad "c15 lang")

let to_c15_pos = function
  | A "struct" -> Model.C15struct | A "field" -> Model.C15field | A "unit_enum" -> Model.C15unit_enum
  | A "alg_enum" -> Model.C15alg_enum | A "variant" -> Model.C15variant | A "variant_field" -> Model.C15variant_field
  | A "alias" -> Model.C15alias
  | _ -> raise (Bad "c15 position")

let c15 args =
  match args with
  | [l; sites; text] ->
    let l = to_c15_lang l in
    let sites = to_list (function L [p; ds] -> (to_c15_pos p, to_list to_str ds) | _ -> raise (Bad "c15 site")) sites in
    let text = to_str text in
    let docs = List.concat_map snd sites in
    let unsafe = List.concat_map (fun (p, ds) -> List.filter (fun d -> not (Model.c15_safe l (Model.c15_docstring_at p) d)) ds) sites in
    L [ L [A "known"; of_opt (fun c -> A (coqstring c)) (Model.known_C15 l sites)];
        L [A "reproduced"; of_bool (Model.c15_reproduced docs text)];
        L [A "contained"; of_bool (Model.c15_contained_in l docs text)];
        L [A "good"; of_bool (Model.good_C15 l docs text)];
        L [A "unsafe"; of_list str_to_atom unsafe];
        L [A "obs"; str_to_atom (Model.c15_obs l docs text)] ]
  | _ -> raise (Bad "c15 args")

let () = register "c15" c15

(* (c15carried ((POS (VALUE ..)) ..)) -> ((POS (DOC ..)) ..): the doc strings the front end carries on the unchanged
   tree for doc attributes with these values (Spec/C15Spec.v c15_carried_sites: str::trim of each value) *)
let c15carried args =
  match args with
  | [sites] ->
    let sites = to_list (function L [p; ds] -> (p, to_list to_str ds) | _ -> raise (Bad "c15 site")) sites in
    let carried = Model.c15_carried_sites uc (List.map (fun (p, ds) -> (to_c15_pos p, ds)) sites) in
    L (List.map2 (fun (p, _) (_, ds) -> L [p; of_list str_to_atom ds]) sites carried)
  | _ -> raise (Bad "c15carried args")

let () = register "c15carried" c15carried
