(* ---- C15: doc text stays inside comments ----
   (c15 LANG ((POS (DOC ..)) ..) TEXT MARK) -> the extracted verdict predicates of Spec/C15Spec.v on a generated file.
   The DOCs are the doc strings of the positions as the front end carries them (lines); what must be found in TEXT is
   each of them AS WRITTEN by the back end of LANG in the comment form of its position (Spec/C15Spec.v c15_site_written:
   TypeScript and Python docstrings escape the terminator).  MARK = all: every written string is searched and marked;
   MARK = sentinel: only the written strings containing the sentinel prefix Zq are marked (the others - short lines
   such as a lone star or hash sign that also occur in code - are only required to occur).
     (known K) (dom B) (reproduced B) (contained B) (good B) (unsafe (DOC ..)) (written (W ..)) (obs S)
   dom: Spec dom_C15_ir (every doc string is c15_safe: always true of what the front end delivers).
   obs: one number per character of TEXT (as a string atom): 0 = not doc text, otherwise the lexer mode tag
   (+10 when the character is not comment text or ends its comment). *)
open Drv_base

let to_c15_lang = function
  | A "typescript" -> Model.C15ts | A "kotlin" -> Model.C15kt | A "swift" -> Model.C15sw
  | A "scala" -> Model.C15sc | A "go" -> Model.C15go | A "python" -> Model.C15py
  | _ -> raise (Bad "c15 lang")

let to_c15_pos = function
  | A "struct" -> Model.C15struct | A "field" -> Model.C15field | A "unit_enum" -> Model.C15unit_enum
  | A "alg_enum" -> Model.C15alg_enum | A "variant" -> Model.C15variant | A "variant_field" -> Model.C15variant_field
  | A "alias" -> Model.C15alias
  | _ -> raise (Bad "c15 position")

let c15_sentinel = to_str (A "s90.113")   (* Zq *)

let c15 args =
  match args with
  | [l; sites; text; mark] ->
    let l = to_c15_lang l in
    let sites = to_list (function L [p; ds] -> (to_c15_pos p, to_list to_str ds) | _ -> raise (Bad "c15 site")) sites in
    let text = to_str text in
    let written = List.concat_map (Model.c15_site_written l) sites in
    let marked = match mark with
      | A "all" -> written
      | A "sentinel" -> List.filter (fun w -> Model.contains_sub c15_sentinel w) written
      | _ -> raise (Bad "c15 mark") in
    let unsafe = List.concat_map (fun (p, ds) -> List.filter (fun d -> not (Model.c15_safe l (Model.c15_docstring_at p) d)) ds) sites in
    let reproduced = Model.c15_reproduced written text in
    let contained = Model.c15_contained_in l marked text in
    L [ L [A "known"; of_opt (fun c -> A (coqstring c)) (Model.known_C15 l sites)];
        L [A "dom"; of_bool (Model.dom_C15_ir l sites)];
        L [A "reproduced"; of_bool reproduced];
        L [A "contained"; of_bool contained];
        L [A "good"; of_bool (reproduced && contained)];
        L [A "unsafe"; of_list str_to_atom unsafe];
        L [A "written"; of_list str_to_atom written];
        L [A "obs"; str_to_atom (Model.c15_obs l marked text)] ]
  | _ -> raise (Bad "c15 args")

let () = register "c15" c15

(* (c15carried ((POS (VALUE ..)) ..)) -> ((POS (DOC ..)) ..): the doc strings the front end carries for doc attributes
   with these values (Spec/C15Spec.v c15_carried_sites: per value the trimmed lines of the trimmed value) *)
let c15carried args =
  match args with
  | [sites] ->
    let sites = to_list (function L [p; ds] -> (p, to_list to_str ds) | _ -> raise (Bad "c15 site")) sites in
    let carried = Model.c15_carried_sites uc (List.map (fun (p, ds) -> (to_c15_pos p, ds)) sites) in
    L (List.map2 (fun (p, _) (_, ds) -> L [p; of_list str_to_atom ds]) sites carried)
  | _ -> raise (Bad "c15carried args")

let () = register "c15carried" c15carried
