(* C05 commands (no logic beyond decoding, dispatch on the language, encoding):
   (c05_fmt   LANG CFG GENERICS RTYPE)            the model's format_type: (ok TEXT NORMED-TEXP) | (err ..) | (panic ..)
   (c05_judge LANG CFG GENERICS RTYPE OBS)        OBS = none | (some TEXP):  (DOM KNOWN GOOD ERASE)   - the spec's verdict
   (c05_prim  LANG PRIM NAME)                     (LEAF_OK KNOWN GOOD TABLE_NAME)
   (c05_denote TY)                                (SRC_OK RTYPE (model outcome of parse_ty))
   (c05_keys  RTYPE)                              (RUST_NAME TOOL_KEY)
   (c05_judge_site LANG CFG SITE GENERICS RTYPE OBS)  like c05_judge, at a use site (field alias inline_alias payload const) *)
open Drv_base
open Drv_ast
open Drv_ir
open Drv_gen

let lang_of = function
  | A "typescript" -> Model.TypeScript | A "kotlin" -> Model.Kotlin | A "scala" -> Model.Scala
  | A "swift" -> Model.Swift | A "go" -> Model.Go | A "python" -> Model.Python
  | _ -> raise (Bad "c05 lang")

let c05cfg cfg = { Model.c05_m = cfg_map cfg "type_mappings"; Model.c05_pre = cfg_str cfg "prefix";
                   Model.c05_nps = cfg_bool cfg "no_pointer_slice" false }

let rec to_texp (x : sx) : Model.texp =
  match x with
  | L [A "name"; n; args] -> Model.XName (to_str n, to_list to_texp args)
  | L [A "seq"; e] -> Model.XSeq (to_texp e)
  | L [A "fixed"; es] -> Model.XFixed (to_list to_texp es)
  | L [A "map"; k; v] -> Model.XMap (to_texp k, to_texp v)
  | L [A "opt"; e] -> Model.XOpt (to_texp e)
  | L [A "raw"; t] -> Model.XRaw (to_str t)
  | _ -> raise (Bad "texp")

let class_name = function
  | Model.C05K_generic_map_key -> "C05-generic-map-key"
  | Model.C05K_special_mapping_ignored -> "C05-special-mapping-ignored"
  | Model.C05K_mapping_key_display -> "C05-mapping-key-display"
let prim_class_name = function
  | Model.C05K_scala_unsigned -> "C05-scala-unsigned"
  | Model.C05K_go_char -> "C05-go-char"
  | Model.C05K_swift_char -> "C05-swift-char"

let ts_cfg cfg = { Model.ts_type_mappings = cfg_map cfg "type_mappings"; Model.ts_no_version_header = true; Model.ts_version = [] }
let kt_cfg cfg = { Model.kt_package = cfg_str cfg "package"; Model.kt_module_name = cfg_str cfg "module_name"; Model.kt_prefix = cfg_str cfg "prefix";
                   Model.kt_type_mappings = cfg_map cfg "type_mappings"; Model.kt_no_version_header = true; Model.kt_version = [] }
let sc_cfg cfg = { Model.sc_package = cfg_str cfg "package"; Model.sc_module_name = cfg_str cfg "module_name";
                   Model.sc_type_mappings = cfg_map cfg "type_mappings"; Model.sc_no_version_header = true; Model.sc_version = [] }
let py_cfg cfg = { Model.py_type_mappings = cfg_map cfg "type_mappings"; Model.py_no_version_header = true; Model.py_version = [] }

let strip_state (o : ('a * 'b) Model.outcome) : 'a Model.outcome =
  match o with Model.Ok (a, _) -> Model.Ok a | Model.Err e -> Model.Err e | Model.Panic p -> Model.Panic p
let omap f (o : 'a Model.outcome) : 'b Model.outcome =
  match o with Model.Ok a -> Model.Ok (f a) | Model.Err e -> Model.Err e | Model.Panic p -> Model.Panic p

(* the model's translator: (text, observation tree) *)
let model_fmt lang cfg g t : (Model.str * Model.texp) Model.outcome =
  match lang with
  | Model.TypeScript -> omap (fun x -> (Model.ts_show x, x)) (strip_state (Model.ts_texp (ts_cfg cfg) g t []))
  | Model.Kotlin -> omap (fun x -> (Model.kt_show x, x)) (Model.kt_texp (kt_cfg cfg) g t)
  | Model.Scala -> omap (fun x -> (Model.sc_show x, x)) (Model.sc_texp (sc_cfg cfg) g t)
  | Model.Swift -> omap (fun x -> (Model.sw_show x, x)) (strip_state (Model.sw_texp (Drv_lang_swift.sw_config_of cfg) g t false))
  | Model.Go -> omap (fun x -> (Model.go_show x, Model.go_obs_ty x)) (strip_state (Model.go_texp (Drv_lang_go.go_config cfg) g t []))
  | Model.Python -> omap (fun x -> (Model.py_show x, x)) (strip_state (Model.py_texp (py_cfg cfg) g t Model.py_empty_state))

let c05_fmt args =
  match args with
  | [lang; cfg; g; t] ->
    outcome_to_sx (fun (s, x) -> L [str_to_atom s; of_texp (Model.c05_norm x)])
      (model_fmt (lang_of lang) cfg (to_list to_str g) (to_rtype t))
  | _ -> raise (Bad "c05_fmt args")

let c05_judge args =
  match args with
  | [lang; cfg; g; t; obs] ->
    let l = lang_of lang and c = c05cfg cfg and g = to_list to_str g and t = to_rtype t in
    L [ of_bool (Model.dom_C05 t);
        of_opt (fun k -> A (class_name k)) (Model.known_C05 l c g t);
        of_bool (Model.good_C05 l c g t (to_opt to_texp obs));
        of_texp (Model.c05_norm (Model.c05_erase l c g t)) ]
  | _ -> raise (Bad "c05_judge args")

let c05_prim args =
  match args with
  | [lang; A p; name] ->
    let l = lang_of lang and p = prim_of_name p in
    L [ of_bool (Model.c05_leaf_ok p);
        of_opt (fun k -> A (prim_class_name k)) (Model.known_C05_prim l p);
        of_bool (Model.good_C05_prim l p (to_str name));
        str_to_atom (Model.c05_prim_target l p) ]
  | _ -> raise (Bad "c05_prim args")

let c05_denote args =
  match args with
  | [t] ->
    let t = to_ty t in
    L [ of_bool (Model.c05_src_ok t); of_rtype (Model.c05_denote t); outcome_to_sx of_rtype (Model.parse_ty t) ]
  | _ -> raise (Bad "c05_denote args")

let c05_keys args =
  match args with
  | [t] -> let t = to_rtype t in L [ str_to_atom (Model.c05_rust_name t); str_to_atom (Model.c05_tool_key t) ]
  | _ -> raise (Bad "c05_keys args")

let site_of = function
  | A "field" -> Model.C05SField | A "alias" -> Model.C05SAlias | A "inline_alias" -> Model.C05SInlineAlias
  | A "payload" -> Model.C05SPayload | A "const" -> Model.C05SConst
  | _ -> raise (Bad "c05 site")
let site_class_name = function
  | Model.C05S_type k -> class_name k
  | Model.C05S_kotlin_inline_generic -> "C05-kotlin-inline-generic"

(* (c05_judge_site LANG CFG SITE GENERICS RTYPE OBS) -> (DOM KNOWN GOOD ERASE) with the generics list the site must use *)
let c05_judge_site args =
  match args with
  | [lang; cfg; site; g; t; obs] ->
    let l = lang_of lang and c = c05cfg cfg and s = site_of site and g = to_list to_str g and t = to_rtype t in
    (* Go: the verdict takes the uppercase_acronyms of the configuration (good_C05_site_go; with no acronyms it IS
       good_C05_site Go, Props C05_good_site_go_nil): fields and payloads are judged against the REWRITTEN translation *)
    let acrs = cfg_strs cfg "uppercase_acronyms" in
    let go = (match l with Model.Go -> true | _ -> false) in
    L [ of_bool (Model.dom_C05 t);
        of_opt (fun k -> A (site_class_name k)) (Model.known_C05_site l c s g t);
        of_bool (if go then Model.good_C05_site_go acrs c s g t (to_opt to_texp obs)
                 else Model.good_C05_site l c s g t (to_opt to_texp obs));
        of_texp (Model.c05_norm (if go then Model.c05_go_expected acrs c s g t
                                 else Model.c05_erase l c (Model.c05_site_generics s g) t)) ]
  | _ -> raise (Bad "c05_judge_site args")

let () =
  register "c05_fmt" c05_fmt; register "c05_judge" c05_judge; register "c05_prim" c05_prim;
  register "c05_denote" c05_denote; register "c05_keys" c05_keys; register "c05_judge_site" c05_judge_site
