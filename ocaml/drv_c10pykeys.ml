(* C10, Python: the extracted class of the open finding C10-python-key-keyword (Spec/C10PyKeys.v) on the IR the REAL parser produced,
   handed in by checks/c10.py. No logic of its own. *)
open Drv_base

(* (c10_py_keys_cls ITEMS) -> (CLASS ...) *)
let c10_py_keys_cls args =
  match args with
  | [items] -> of_list (fun c -> A (coqstring c)) (Model.known_C10_py_keys (Drv_gen.to_parsed_items items))
  | _ -> raise (Bad "c10_py_keys_cls args")

let () = register "c10_py_keys_cls" c10_py_keys_cls
