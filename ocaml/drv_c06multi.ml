(* C06, multi-file mode: the input classes of finding C06-ambiguous-imports, evaluated by the EXTRACTED Gallina
   predicates the theorems of Props/C06.v are stated with (no OCaml re-implementation of the classes here).

   (c06_ws_class LANG ((PATH FILE TSTRS) ...))
     LANG   typescript | kotlin | swift | scala | go | python (only decides the ignore list of reference types, which
            is empty without type mappings, as in checks/c06.py part (c))
     files  as for the c14 command: PATH = the components of the path as Path::iter yields them, FILE = the AST of
            `libdrive ast`, TSTRS its type-string table; the order is the arrival order at the collector
   route: Model.parse_workspace under the identity iteration order of the per-file import set, Model.collect, then
     class     Proofs.C06Multi.ws_ambiguity (collect arrivals)
               = Spec.C06MultiSpec.ws_imports_ambiguity (all_types cs) (defs_of cs) (imports_of cs)
               (classes 1 and 2: the hypothesis `ws_ambiguity (collect a1) = None` of C06_multi_hash_order_irrelevant / C06_multi_end_to_end)
     distinct  Proofs.C06Multi.all_distinct_b (collect arrivals)      (hypothesis all_distinct)
     file_ambiguous  the paths e of the workspace with Proofs.C06Multi.file_unambiguous uc [] ign e = false
               (class 3, Spec.C06MultiSpec.file_import_ambiguous; hypothesis `forallb file_unambiguous ws = true`)
   answer: ((status ok | (err E) | (panic SITE)) (class none | (some CLASS)) (distinct BOOL) (file_ambiguous (PATH ..))
            (imports ((CRATE ((FROM NAME) ..)) ..)) (table ((CRATE (NAME ..)) ..)))
           imports / table: what the class was evaluated on (merged import set per crate, generated type names per crate)

   (c06_file_class LANG PATH FILE TSTRS) -> true | false : is this one source file in class 3 *)
open Drv_base
open Drv_ast

let lang06 = function
  | "typescript" -> Model.TypeScript | "kotlin" -> Model.Kotlin | "swift" -> Model.Swift
  | "scala" -> Model.Scala | "go" -> Model.Go | "python" -> Model.Python
  | l -> raise (Bad ("lang " ^ l))

let entry06 = function
  | L [path; file; tstrs] -> { Model.we_path = to_list to_str path; Model.we_file = to_file file; Model.we_tstr = to_tstr tstrs }
  | _ -> raise (Bad "workspace entry")

let c06_ws_class args =
  match args with
  | [A lang; files] ->
    let ign = Model.ignored_reference_types (lang06 lang) [] in
    let entries = to_list entry06 files in
    let file_amb = List.filter (fun e -> not (Model.file_unambiguous uc [] ign e)) entries in
    let answer status cls distinct imports table =
      L [L [A "status"; status]; L [A "class"; cls]; L [A "distinct"; distinct];
         L [A "file_ambiguous"; of_list (fun e -> of_list str_to_atom e.Model.we_path) file_amb];
         L [A "imports"; imports]; L [A "table"; table]] in
    (match Model.parse_workspace uc [] ign (fun l -> l) entries with
     | Model.Err e -> answer (L [A "err"; perr_to_sx e]) (A "none") (A "false") (L []) (L [])
     | Model.Panic s -> answer (L [A "panic"; A (coqstring s)]) (A "none") (A "false") (L []) (L [])
     | Model.Ok arrivals ->
       let cs = Model.collect arrivals in
       let imports = of_list (fun (c, pd) ->
         L [str_to_atom c; of_list (fun i -> L [str_to_atom i.Model.base_crate; str_to_atom i.Model.type_name]) pd.Model.p_imports]) cs in
       let table = of_list (fun (c, names) -> L [str_to_atom c; of_list str_to_atom names]) (Model.all_types cs) in
       answer (A "ok") (of_opt (fun s -> A (coqstring s)) (Model.ws_ambiguity cs)) (of_bool (Model.all_distinct_b cs)) imports table)
  | _ -> raise (Bad "c06_ws_class args")

let c06_file_class args =
  match args with
  | [A lang; path; file; tstrs] ->
    let ign = Model.ignored_reference_types (lang06 lang) [] in
    of_bool (not (Model.file_unambiguous uc [] ign (entry06 (L [path; file; tstrs]))))
  | _ -> raise (Bad "c06_file_class args")

let () = register "c06_ws_class" c06_ws_class; register "c06_file_class" c06_file_class
