(* C10, grammar half for Scala: the extracted recogniser of Spec/C10ScGrammar.v (tokenizer, newline rule,
   recursive-descent parser of the Scala declaration subset) on text handed in by checks/c10.py. No logic of its own. *)
open Drv_base

(* (c10_sc_parse TEXT) -> (some nN) = a Scala compilation unit with N definitions | none *)
let c10_sc_parse args =
  match args with
  | [text] -> of_opt (fun n -> A ("n" ^ string_of_int (int_of_nat n))) (Model.c10_sc_recognise (to_str text))
  | _ -> raise (Bad "c10_sc_parse args")

(* (c10_sc_cls PACKAGE ITEMS) -> (CLASS ...): the finding classes of the Scala declaration grammar, on the IR the REAL parser produced *)
let c10_sc_cls args =
  match args with
  | [package; items] -> of_list (fun c -> A (coqstring c)) (Model.known_C10_sc_grammar (to_str package) (Drv_gen.to_parsed_items items))
  | _ -> raise (Bad "c10_sc_cls args")

let () = register "c10_sc_parse" c10_sc_parse; register "c10_sc_cls" c10_sc_cls
