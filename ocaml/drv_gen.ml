(* whole-pipeline commands: (gen_src LANG CFG FILE TSTRS TARGET_OS) and (gen_ir LANG CFG ITEMS RECONCILE) *)
open Drv_base
open Drv_ast
open Drv_ir

let cfg_get (cfg : sx) (key : string) : sx option =
  match cfg with
  | L l -> (try Some (List.find_map (function L [A k; v] when k = key -> Some v | _ -> None) l |> Option.get) with _ -> None)
  | _ -> None
let cfg_str cfg key = match cfg_get cfg key with Some v -> to_str v | None -> []
let cfg_bool cfg key d = match cfg_get cfg key with Some v -> to_bool v | None -> d
let cfg_strs cfg key = match cfg_get cfg key with Some v -> to_list to_str v | None -> []
let cfg_map cfg key = match cfg_get cfg key with
  | Some v -> to_list (function L [k; x] -> (to_str k, to_str x) | _ -> raise (Bad "map")) v
  | None -> []

(* registry of back ends: name -> (cfg -> parsed -> str outcome) *)
let backends : (string, sx -> Model.parsed -> Model.str Model.outcome) Hashtbl.t = Hashtbl.create 8
let register_backend name f = Hashtbl.replace backends name f

let generate lang cfg pd =
  match Hashtbl.find_opt backends lang with
  | Some f -> f cfg pd
  | None -> raise (Bad ("no model for back end " ^ lang))

let reconcile_single (pd : Model.parsed) : Model.parsed =
  match Model.reconcile_aliases [([], pd)] with
  | [(_, pd')] -> pd'
  | _ -> pd

let gen_src args =
  match args with
  | [A lang; cfg; file; tstrs; t] ->
    (match Model.parse_file uc (to_tstr tstrs) (to_list to_str t) (to_file file) with
     | Model.Ok None -> L [A "none"]
     | Model.Ok (Some pd) ->
       if pd.Model.p_errors <> [] then L [A "parse_errors"; of_list perr_to_sx pd.Model.p_errors]
       else outcome_to_sx str_to_atom (generate lang cfg (reconcile_single pd))
     | Model.Err e -> L [A "parse_err"; perr_to_sx e]
     | Model.Panic s -> L [A "panic"; A (coqstring s)])
  | _ -> raise (Bad "gen_src args")

let to_parsed_items (x : sx) : Model.parsed =
  match x with
  | L [structs; enums; aliases; consts] ->
    { Model.p_structs = to_list to_rstruct structs; Model.p_enums = to_list to_renum enums; Model.p_aliases = to_list to_ralias aliases;
      Model.p_consts = to_list to_rconst consts; Model.p_type_names = []; Model.p_errors = []; Model.p_imports = [] }
  | _ -> raise (Bad "items")

let gen_ir args =
  match args with
  | [A lang; cfg; items; recon] ->
    let pd = to_parsed_items items in
    let pd = if to_bool recon then reconcile_single pd else pd in
    outcome_to_sx str_to_atom (generate lang cfg pd)
  | _ -> raise (Bad "gen_ir args")

let () = register "gen_src" gen_src; register "gen_ir" gen_ir

(* ---- TypeScript ---- *)
let () = register_backend "typescript" (fun cfg pd ->
  let c = { Model.ts_type_mappings = cfg_map cfg "type_mappings"; Model.ts_no_version_header = cfg_bool cfg "no_version_header" true;
            Model.ts_version = cfg_str cfg "version" } in
  Model.ts_generate uc c pd)
