(* whole-pipeline commands: (gen_src LANG CFG FILE TSTRS TARGET_OS) and (gen_ir LANG CFG ITEMS RECONCILE) *)
open Drv_base
open Drv_ast
open Drv_ir

let cfg_get (cfg : sx) (key : string) : sx option =
  match cfg with
  | L l -> (try Some (List.find_map (function L [A k; v] when k = key -> Some v | _ -> None) l |> Option.get) with _ -> None)
  | _ -> None
let cfg_str cfg key = match cfg_get cfg key with Some v -> to_str v | None -> []
let cfg_bool cfg key d = match cfg_get cfg key with Some v -> to_bool v | None -> d
let cfg_strs cfg key = match cfg_get cfg key with Some v -> to_list to_str v | None -> []
let cfg_map cfg key = match cfg_get cfg key with
  | Some v -> to_list (function L [k; x] -> (to_str k, to_str x) | _ -> raise (Bad "map")) v
  | None -> []

(* registry of back ends: name -> (cfg -> parsed -> str outcome) *)
let backends : (string, sx -> Model.parsed -> Model.str Model.outcome) Hashtbl.t = Hashtbl.create 8
let register_backend name f = Hashtbl.replace backends name f

let generate lang cfg pd =
  match Hashtbl.find_opt backends lang with
  | Some f -> f cfg pd
  | None -> raise (Bad ("no model for back end " ^ lang))

let reconcile_single (pd : Model.parsed) : Model.parsed =
  match Model.reconcile_aliases [([], pd)] with
  | [(_, pd')] -> pd'
  | _ -> pd

let gen_src args =
  match args with
  | [A lang; cfg; file; tstrs; t] ->
    (match Model.parse_file uc (to_tstr tstrs) (to_list to_str t) (to_file file) with
     | Model.Ok None -> L [A "none"]
     | Model.Ok (Some pd) ->
       if pd.Model.p_errors <> [] then L [A "parse_errors"; of_list perr_to_sx pd.Model.p_errors]
       else outcome_to_sx str_to_atom (generate lang cfg (reconcile_single pd))
     | Model.Err e -> L [A "parse_err"; perr_to_sx e]
     | Model.Panic s -> L [A "panic"; A (coqstring s)])
  | _ -> raise (Bad "gen_src args")

let to_parsed_items (x : sx) : Model.parsed =
  match x with
  | L [structs; enums; aliases; consts] ->
    { Model.p_structs = to_list to_rstruct structs; Model.p_enums = to_list to_renum enums; Model.p_aliases = to_list to_ralias aliases;
      Model.p_consts = to_list to_rconst consts; Model.p_type_names = []; Model.p_errors = []; Model.p_imports = [] }
  | _ -> raise (Bad "items")

let gen_ir args =
  match args with
  | [A lang; cfg; items; recon] ->
    let pd = to_parsed_items items in
    let pd = if to_bool recon then reconcile_single pd else pd in
    outcome_to_sx str_to_atom (generate lang cfg pd)
  | _ -> raise (Bad "gen_ir args")

(* ---- abstract declarations (Model/Lang/Decl.v) ---- *)
let rec of_texp (x : Model.texp) : sx =
  match x with
  | Model.XName (n, args) -> L [A "name"; str_to_atom n; of_list of_texp args]
  | Model.XSeq e -> L [A "seq"; of_texp e]
  | Model.XFixed es -> L [A "fixed"; of_list of_texp es]
  | Model.XMap (k, v) -> L [A "map"; of_texp k; of_texp v]
  | Model.XOpt e -> L [A "opt"; of_texp e]
  | Model.XRaw t -> L [A "raw"; str_to_atom t]

let of_binding = function
  | Model.BName -> A "name" | Model.BQuoted -> A "quoted" | Model.BSerialName -> A "serial_name"
  | Model.BCodingKey -> A "coding_key" | Model.BJsonTag -> A "json_tag" | Model.BAlias -> A "alias"

let of_member (m : Model.member) : sx =
  L [A "member"; str_to_atom m.Model.mb_name; of_bool m.Model.mb_escaped; str_to_atom m.Model.mb_key; of_binding m.Model.mb_binding;
     of_bool m.Model.mb_optional; of_texp m.Model.mb_type; of_list str_to_atom m.Model.mb_docs]

let of_payload = function
  | Model.PayUnit -> A "unit"
  | Model.PayNewtype (t, o) -> L [A "newtype"; of_texp t; of_bool o]
  | Model.PayInline ms -> L [A "inline"; of_list of_member ms]
  | Model.PayRef (inner, args) -> L [A "ref"; str_to_atom inner; of_list str_to_atom args]

let of_variantd (v : Model.variantd) : sx =
  L [A "variant"; str_to_atom v.Model.vd_name; str_to_atom v.Model.vd_wire; of_payload v.Model.vd_payload;
     of_opt str_to_atom v.Model.vd_parent; of_list str_to_atom v.Model.vd_docs]

let of_defkind = function
  | Model.DStruct -> A "struct" | Model.DEnum -> A "enum" | Model.DAlias -> A "alias" | Model.DConst -> A "const" | Model.DHelper -> A "helper"

let of_decl (d : Model.decl) : sx =
  L [A "decl"; of_defkind d.Model.d_kind; str_to_atom d.Model.d_name; of_bool d.Model.d_escaped; of_list str_to_atom d.Model.d_generics;
     of_list str_to_atom d.Model.d_docs; of_list of_member d.Model.d_members; of_list of_variantd d.Model.d_variants;
     of_list str_to_atom d.Model.d_tag_keys; of_list str_to_atom d.Model.d_content_keys; of_opt of_texp d.Model.d_type;
     of_opt str_to_atom d.Model.d_value]

let of_file_decls (f : Model.file_decls) : sx =
  L [A "file"; of_list str_to_atom f.Model.fd_header; of_list str_to_atom f.Model.fd_imports; of_list of_decl f.Model.fd_decls;
     of_list str_to_atom f.Model.fd_helper_defs]

let decl_backends : (string, sx -> Model.parsed -> Model.file_decls Model.outcome) Hashtbl.t = Hashtbl.create 8
let register_decls name f = Hashtbl.replace decl_backends name f
let decls_of lang cfg pd =
  match Hashtbl.find_opt decl_backends lang with
  | Some f -> f cfg pd
  | None -> raise (Bad ("no declaration model for back end " ^ lang))

(* (decls_src LANG CFG FILE TSTRS T) / (decls_ir LANG CFG ITEMS RECONCILE): like gen_src / gen_ir but
   returning the abstract declarations instead of the text *)
let decls_src args =
  match args with
  | [A lang; cfg; file; tstrs; t] ->
    (match Model.parse_file uc (to_tstr tstrs) (to_list to_str t) (to_file file) with
     | Model.Ok None -> L [A "none"]
     | Model.Ok (Some pd) ->
       if pd.Model.p_errors <> [] then L [A "parse_errors"; of_list perr_to_sx pd.Model.p_errors]
       else outcome_to_sx of_file_decls (decls_of lang cfg (reconcile_single pd))
     | Model.Err e -> L [A "parse_err"; perr_to_sx e]
     | Model.Panic s -> L [A "panic"; A (coqstring s)])
  | _ -> raise (Bad "decls_src args")

let decls_ir args =
  match args with
  | [A lang; cfg; items; recon] ->
    let pd = to_parsed_items items in
    let pd = if to_bool recon then reconcile_single pd else pd in
    outcome_to_sx of_file_decls (decls_of lang cfg pd)
  | _ -> raise (Bad "decls_ir args")

let () = register "gen_src" gen_src; register "gen_ir" gen_ir; register "decls_src" decls_src; register "decls_ir" decls_ir

(* ---- TypeScript ---- *)
let () = register_backend "typescript" (fun cfg pd ->
  let c = { Model.ts_type_mappings = cfg_map cfg "type_mappings"; Model.ts_no_version_header = cfg_bool cfg "no_version_header" true;
            Model.ts_version = cfg_str cfg "version" } in
  Model.ts_generate uc c pd)
let () = register_decls "typescript" (fun cfg pd ->
  let c = { Model.ts_type_mappings = cfg_map cfg "type_mappings"; Model.ts_no_version_header = cfg_bool cfg "no_version_header" true;
            Model.ts_version = cfg_str cfg "version" } in
  Model.ts_file_decls uc c pd)
