(* S-expression decoders and encoders for the IR of Model/Types.v *)
open Drv_base

let prim_names = [
  "DateTime", Model.PDateTime; "Unit", Model.PUnit; "String", Model.PString; "Char", Model.PChar;
  "I8", Model.PI8; "I16", Model.PI16; "I32", Model.PI32; "I64", Model.PI64;
  "U8", Model.PU8; "U16", Model.PU16; "U32", Model.PU32; "U64", Model.PU64;
  "ISize", Model.PISize; "USize", Model.PUSize; "Bool", Model.PBool; "F32", Model.PF32; "F64", Model.PF64;
  "I54", Model.PI54; "U53", Model.PU53 ]
let prim_of_name n = try List.assoc n prim_names with Not_found -> raise (Bad ("prim " ^ n))
let name_of_prim p = fst (List.find (fun (_, q) -> q = p) prim_names)

let rec to_rtype (x : sx) : Model.rtype =
  match x with
  | L [A "simple"; s] -> Model.RSimple (to_str s)
  | L [A "generic"; s; ps] -> Model.RGeneric (to_str s, to_list to_rtype ps)
  | L [A "vec"; t] -> Model.RVec (to_rtype t)
  | L [A "array"; t; n] -> Model.RArray (to_rtype t, to_n n)
  | L [A "slice"; t] -> Model.RSlice (to_rtype t)
  | L [A "hashmap"; k; v] -> Model.RHashMap (to_rtype k, to_rtype v)
  | L [A "option"; t] -> Model.ROption (to_rtype t)
  | L [A "prim"; A n] -> Model.RPrim (prim_of_name n)
  | _ -> raise (Bad "rtype")

let rec of_rtype (t : Model.rtype) : sx =
  match t with
  | Model.RSimple s -> L [A "simple"; str_to_atom s]
  | Model.RGeneric (s, ps) -> L [A "generic"; str_to_atom s; of_list of_rtype ps]
  | Model.RVec t -> L [A "vec"; of_rtype t]
  | Model.RArray (t, n) -> L [A "array"; of_rtype t; n_to_atom n]
  | Model.RSlice t -> L [A "slice"; of_rtype t]
  | Model.RHashMap (k, v) -> L [A "hashmap"; of_rtype k; of_rtype v]
  | Model.ROption t -> L [A "option"; of_rtype t]
  | Model.RPrim p -> L [A "prim"; A (name_of_prim p)]

let to_id = function
  | L [A "id"; o; r; b] -> { Model.original = to_str o; Model.renamed = to_str r; Model.via_serde_rename = to_bool b }
  | _ -> raise (Bad "id")
let of_id (i : Model.id) = L [A "id"; str_to_atom i.Model.original; str_to_atom i.Model.renamed; of_bool i.Model.via_serde_rename]

let lang_names = ["Go", Model.Go; "Kotlin", Model.Kotlin; "Scala", Model.Scala; "Swift", Model.Swift; "TypeScript", Model.TypeScript; "Python", Model.Python]
let to_lang = function A n -> (try List.assoc n lang_names with Not_found -> raise (Bad ("lang " ^ n))) | _ -> raise (Bad "lang")
let of_lang l = A (fst (List.find (fun (_, q) -> q = l) lang_names))
let kind_names = ["Swift", Model.DKSwift; "SwiftGenericConstraints", Model.DKSwiftGenericConstraints; "Kotlin", Model.DKKotlin]
let to_kind = function A n -> (try List.assoc n kind_names with Not_found -> raise (Bad ("kind " ^ n))) | _ -> raise (Bad "kind")
let of_kind k = A (fst (List.find (fun (_, q) -> q = k) kind_names))

let to_fdecor = function
  | L [A "word"; w] -> Model.DWord (to_str w)
  | L [A "nv"; n; v] -> Model.DNameValue (to_str n, to_str v)
  | _ -> raise (Bad "fdecor")
let of_fdecor = function
  | Model.DWord w -> L [A "word"; str_to_atom w]
  | Model.DNameValue (n, v) -> L [A "nv"; str_to_atom n; str_to_atom v]

let to_fdecmap x = to_list (function L [l; ds] -> (to_lang l, to_list to_fdecor ds) | _ -> raise (Bad "fdecmap")) x
let of_fdecmap m = of_list (fun (l, ds) -> L [of_lang l; of_list of_fdecor ds]) m
let to_decmap x = to_list (function L [k; ss] -> (to_kind k, to_list to_str ss) | _ -> raise (Bad "decmap")) x
let of_decmap m = of_list (fun (k, ss) -> L [of_kind k; of_list str_to_atom ss]) m

let to_rfield = function
  | L [A "field"; i; t; cs; d; decs] ->
    { Model.fid = to_id i; Model.fty = to_rtype t; Model.fcomments = to_list to_str cs; Model.has_default = to_bool d; Model.fdecs = to_fdecmap decs }
  | _ -> raise (Bad "rfield")
let of_rfield (f : Model.rfield) =
  L [A "field"; of_id f.Model.fid; of_rtype f.Model.fty; of_list str_to_atom f.Model.fcomments; of_bool f.Model.has_default; of_fdecmap f.Model.fdecs]

let to_rstruct = function
  | L [A "struct"; i; gs; fs; cs; decs; red] ->
    { Model.sid = to_id i; Model.sgenerics = to_list to_str gs; Model.sfields = to_list to_rfield fs; Model.scomments = to_list to_str cs;
      Model.sdecs = to_decmap decs; Model.sredacted = to_bool red }
  | _ -> raise (Bad "rstruct")
let of_rstruct (s : Model.rstruct) =
  L [A "struct"; of_id s.Model.sid; of_list str_to_atom s.Model.sgenerics; of_list of_rfield s.Model.sfields; of_list str_to_atom s.Model.scomments;
     of_decmap s.Model.sdecs; of_bool s.Model.sredacted]

let to_vshared i cs = { Model.vid = to_id i; Model.vcomments = to_list to_str cs }
let to_rvariant = function
  | L [A "vunit"; i; cs] -> Model.VUnit (to_vshared i cs)
  | L [A "vtuple"; i; cs; t] -> Model.VTuple (to_rtype t, to_vshared i cs)
  | L [A "vanon"; i; cs; fs] -> Model.VAnon (to_list to_rfield fs, to_vshared i cs)
  | _ -> raise (Bad "rvariant")
let of_rvariant = function
  | Model.VUnit sh -> L [A "vunit"; of_id sh.Model.vid; of_list str_to_atom sh.Model.vcomments]
  | Model.VTuple (t, sh) -> L [A "vtuple"; of_id sh.Model.vid; of_list str_to_atom sh.Model.vcomments; of_rtype t]
  | Model.VAnon (fs, sh) -> L [A "vanon"; of_id sh.Model.vid; of_list str_to_atom sh.Model.vcomments; of_list of_rfield fs]

let to_renum = function
  | L [A "enum"; alg; tag; content; i; gs; cs; vs; decs; recu; red] ->
    let sh = { Model.eid = to_id i; Model.egenerics = to_list to_str gs; Model.ecomments = to_list to_str cs; Model.evariants = to_list to_rvariant vs;
               Model.edecs = to_decmap decs; Model.erecursive = to_bool recu; Model.eredacted = to_bool red } in
    if to_bool alg then
      (match to_opt to_str tag, to_opt to_str content with
       | Some t, Some c -> Model.EAlgebraic (t, c, sh)
       | _ -> raise (Bad "algebraic enum without keys"))
    else Model.EUnit sh
  | _ -> raise (Bad "renum")
let of_renum e =
  let alg, tag, content, sh = match e with
    | Model.EUnit sh -> false, None, None, sh
    | Model.EAlgebraic (t, c, sh) -> true, Some t, Some c, sh in
  L [A "enum"; of_bool alg; of_opt str_to_atom tag; of_opt str_to_atom content; of_id sh.Model.eid; of_list str_to_atom sh.Model.egenerics;
     of_list str_to_atom sh.Model.ecomments; of_list of_rvariant sh.Model.evariants; of_decmap sh.Model.edecs;
     of_bool sh.Model.erecursive; of_bool sh.Model.eredacted]

let to_ralias = function
  | L [A "alias"; i; gs; t; cs; decs; red] ->
    { Model.aid = to_id i; Model.agenerics = to_list to_str gs; Model.atype = to_rtype t; Model.acomments = to_list to_str cs;
      Model.adecs = to_decmap decs; Model.aredacted = to_bool red }
  | _ -> raise (Bad "ralias")
let of_ralias (a : Model.ralias) =
  L [A "alias"; of_id a.Model.aid; of_list str_to_atom a.Model.agenerics; of_rtype a.Model.atype; of_list str_to_atom a.Model.acomments;
     of_decmap a.Model.adecs; of_bool a.Model.aredacted]

let to_rconst = function
  | L [A "const"; i; t; v] -> { Model.cid = to_id i; Model.ctype = to_rtype t; Model.cvalue = to_z v }
  | _ -> raise (Bad "rconst")
let of_rconst (c : Model.rconst) = L [A "const"; of_id c.Model.cid; of_rtype c.Model.ctype; z_to_atom c.Model.cvalue]

let to_ritem x =
  match x with
  | L (A "struct" :: _) -> Model.ItStruct (to_rstruct x)
  | L (A "enum" :: _) -> Model.ItEnum (to_renum x)
  | L (A "alias" :: _) -> Model.ItAlias (to_ralias x)
  | L (A "const" :: _) -> Model.ItConst (to_rconst x)
  | _ -> raise (Bad "ritem")
let of_ritem = function
  | Model.ItStruct s -> of_rstruct s
  | Model.ItEnum e -> of_renum e
  | Model.ItAlias a -> of_ralias a
  | Model.ItConst c -> of_rconst c
