open Drv_base
open Drv_ast

let parse_leaf tstr t (it : Model.item) : Model.ritem Model.outcome =
  match it with
  | Model.IStruct (a, i, g, fs) -> Model.parse_struct uc tstr t a i g fs
  | Model.IEnum (a, i, g, vs) -> Model.parse_enum uc tstr t a i g vs
  | Model.IType (a, i, g, ty) -> Model.parse_type_alias uc tstr a i g ty
  | Model.IConst (a, i, ty, e) -> Model.parse_const uc tstr a i ty e
  | _ -> raise (Bad "leaf")

(* (c08 FILE TSTRS T) -> per expected leaf: (ident unsupported known model_outcome_kind) *)
let c08 args =
  match args with
  | [file; tstrs; t] ->
    let f = to_file file and tstr = to_tstr tstrs and t = to_list to_str t in
    of_list (fun it ->
      let o = parse_leaf tstr t it in
      L [ str_to_atom (Model.leaf_ident it);
          of_bool (Model.item_unsupported uc tstr t it);
          of_opt (fun c -> A (coqstring c)) (Model.known_C08 it);
          A (match o with Model.Ok _ -> "ok" | Model.Err _ -> "err" | Model.Panic _ -> "panic") ])
      (Model.expected_leaves t f)
  | _ -> raise (Bad "c08 args")

let () = register "c08" c08
