(* C09, folder-output mode: the classes of Spec/C09MultiSpec.v (c9m_known: C09-multi-glob-renamed, -split-scope,
   -import-over-own, -two-names), evaluated by the EXTRACTED Gallina predicate the theorems of Props/C09.v are stated
   with (no OCaml re-implementation of the classes here).

   (c09_ws_class LANG ((PATH FILE TSTRS) ...))
     LANG   typescript | kotlin | swift | scala | go | python (only decides the ignore list of reference types, which
            is empty without type mappings, as in checks/c09.py phase_multi)
     files  as for the c14 / c06_ws_class commands: PATH = the components of the path as Path::iter yields them,
            FILE = the AST of `libdrive ast`, TSTRS its type-string table; the order is the arrival order
   route: Model.parse_workspace under the identity iteration order of the per-file import set (the `arrivals` of
     Props/C09.v: one (crate, parsed) per source file that yields something), then
     class    Spec.C09MultiSpec.c9m_known_ws arrivals
     ids_wf   Spec.C09MultiSpec.c9m_ids_wf arrivals          (the domain hypothesis of C09_multi_TypeScript)
     files    per arrival: (CRATE class-of-that-file)  = c9m_known_file arrivals crate parsed
   answer: ((status ok | (err E) | (panic SITE)) (class none | (some CLASS)) (ids_wf BOOL) (files ((CRATE none | (some CLASS)) ..))) *)
open Drv_base
open Drv_ast

let lang09m = function
  | "typescript" -> Model.TypeScript | "kotlin" -> Model.Kotlin | "swift" -> Model.Swift
  | "scala" -> Model.Scala | "go" -> Model.Go | "python" -> Model.Python
  | l -> raise (Bad ("lang " ^ l))

let entry09m = function
  | L [path; file; tstrs] -> { Model.we_path = to_list to_str path; Model.we_file = to_file file; Model.we_tstr = to_tstr tstrs }
  | _ -> raise (Bad "workspace entry")

let c09_ws_class args =
  match args with
  | [A lang; files] ->
    let ign = Model.ignored_reference_types (lang09m lang) [] in
    let entries = to_list entry09m files in
    let cls o = of_opt (fun s -> A (coqstring s)) o in
    let answer status c wf fs = L [L [A "status"; status]; L [A "class"; c]; L [A "ids_wf"; wf]; L [A "files"; fs]] in
    (match Model.parse_workspace uc [] ign (fun l -> l) entries with
     | Model.Err e -> answer (L [A "err"; perr_to_sx e]) (A "none") (A "false") (L [])
     | Model.Panic s -> answer (L [A "panic"; A (coqstring s)]) (A "none") (A "false") (L [])
     | Model.Ok arrivals ->
       answer (A "ok") (cls (Model.c9m_known_ws arrivals)) (of_bool (Model.c9m_ids_wf arrivals))
         (of_list (fun (c, pd) -> L [str_to_atom c; cls (Model.c9m_known_file arrivals c pd)]) arrivals))
  | _ -> raise (Bad "c09_ws_class args")

let () = register "c09_ws_class" c09_ws_class
