(* C09, folder-output mode: the classes of Spec/C09MultiSpec.v (c9m_known: C09-multi-glob-renamed, -split-scope,
   -import-over-own, -two-names), evaluated by the EXTRACTED Gallina predicate the theorems of Props/C09.v are stated
   with (no OCaml re-implementation of the classes here).

   (c09_ws_class LANG ((PATH FILE TSTRS) ...))
     LANG   typescript | kotlin | swift | scala | go | python (only decides the ignore list of reference types, which
            is empty without type mappings, as in checks/c09.py phase_multi)
     files  as for the c14 / c06_ws_class commands: PATH = the components of the path as Path::iter yields them,
            FILE = the AST of `libdrive ast`, TSTRS its type-string table; the order is the arrival order
   route: Model.parse_workspace under the identity iteration order of the per-file import set (the `arrivals` of
     Props/C09.v: one (crate, parsed) per source file that yields something), then
     class    Spec.C09MultiSpec.c9m_known_ws arrivals
     ids_wf   Spec.C09MultiSpec.c9m_ids_wf arrivals          (the domain hypothesis of C09_multi_TypeScript)
     files    per arrival: (CRATE class-of-that-file)  = c9m_known_file arrivals crate parsed
   answer: ((status ok | (err E) | (panic SITE)) (class none | (some CLASS)) (ids_wf BOOL) (files ((CRATE none | (some CLASS)) ..))) *)
open Drv_base
open Drv_ast

let lang09m = function
  | "typescript" -> Model.TypeScript | "kotlin" -> Model.Kotlin | "swift" -> Model.Swift
  | "scala" -> Model.Scala | "go" -> Model.Go | "python" -> Model.Python
  | l -> raise (Bad ("lang " ^ l))

let entry09m = function
  | L [path; file; tstrs] -> { Model.we_path = to_list to_str path; Model.we_file = to_file file; Model.we_tstr = to_tstr tstrs }
  | _ -> raise (Bad "workspace entry")

let c09_ws_class args =
  match args with
  | [A lang; files] ->
    let ign = Model.ignored_reference_types (lang09m lang) [] in
    let entries = to_list entry09m files in
    let cls o = of_opt (fun s -> A (coqstring s)) o in
    let answer status c wf fs = L [L [A "status"; status]; L [A "class"; c]; L [A "ids_wf"; wf]; L [A "files"; fs]] in
    (match Model.parse_workspace uc [] ign (fun l -> l) entries with
     | Model.Err e -> answer (L [A "err"; perr_to_sx e]) (A "none") (A "false") (L [])
     | Model.Panic s -> answer (L [A "panic"; A (coqstring s)]) (A "none") (A "false") (L [])
     | Model.Ok arrivals ->
       answer (A "ok") (cls (Model.c9m_known_ws arrivals)) (of_bool (Model.c9m_ids_wf arrivals))
         (of_list (fun (c, pd) -> L [str_to_atom c; cls (Model.c9m_known_file arrivals c pd)]) arrivals))
  | _ -> raise (Bad "c09_ws_class args")

let () = register "c09_ws_class" c09_ws_class

(* the language-level classes of Spec/C09MultiLangSpec.v (c9m_lknown: those of c9m_known, then C09-multi-emitted-generic and
   C09-kotlin-inline-generic; c9m_lknown_crate: the own-crate classes of definitions, sealed parents and helpers), for the
   language AND the prefix the run is made under.

   (c09_ws_lclass LANG PREFIX ((PATH FILE TSTRS) ...))
     PREFIX  the --kotlin-prefix / --swift-prefix of the run as a string atom (`s` = none)
   answer: ((status ..) (class none | (some CLASS))      = c9m_lknown_ws LANG PREFIX arrivals
            (base none | (some CLASS))                   = c9m_known_ws arrivals (the language-independent classes)
            (ids_wf BOOL)
            (files ((CRATE FILE-CLASS CRATE-CLASS) ..)))  per arrival: c9m_lknown_file LANG PREFIX arrivals crate parsed,
                                                          c9m_lknown_crate LANG arrivals crate

   (c09_ws_good LANG PREFIX files CRATE OBS)
     OBS     (DEFS REFS) as in the c09 command: the observation of the file generated for CRATE
   answer: ((status ..) (good BOOL)                       = good_C09_multi LANG PREFIX arrivals CRATE OBS
            (bad_defs (NAME ..)) (bad_refs ((IN POS NAME) ..)))   those c9m_ldef_okb / c9m_lref_okb reject *)
let with_arrivals09m lang files (k : Model.lang -> (Model.str * Model.parsed) list -> sx list) (dflt : sx list) =
  let l = lang09m lang in
  let ign = Model.ignored_reference_types l [] in
  let entries = to_list entry09m files in
  match Model.parse_workspace uc [] ign (fun l -> l) entries with
  | Model.Err e -> L (L [A "status"; L [A "err"; perr_to_sx e]] :: dflt)
  | Model.Panic s -> L (L [A "status"; L [A "panic"; A (coqstring s)]] :: dflt)
  | Model.Ok arrivals -> L (L [A "status"; A "ok"] :: k l arrivals)

let c09_ws_lclass args =
  match args with
  | [A lang; pfx; files] ->
    let pfx = to_str pfx in
    let cls o = of_opt (fun s -> A (coqstring s)) o in
    with_arrivals09m lang files
      (fun l arrivals ->
         [ L [A "class"; cls (Model.c9m_lknown_ws l pfx arrivals)];
           L [A "base"; cls (Model.c9m_known_ws arrivals)];
           L [A "ids_wf"; of_bool (Model.c9m_ids_wf arrivals)];
           L [A "files"; of_list (fun (c, pd) -> L [str_to_atom c; cls (Model.c9m_lknown_file l pfx arrivals c pd);
                                                    cls (Model.c9m_lknown_crate l arrivals c)]) arrivals] ])
      [L [A "class"; A "none"]; L [A "base"; A "none"]; L [A "ids_wf"; A "false"]; L [A "files"; L []]]
  | _ -> raise (Bad "c09_ws_lclass args")

let c09_ws_good args =
  match args with
  | [A lang; pfx; files; crate; obs] ->
    let pfx = to_str pfx and b = to_str crate and o = Drv_c09.c09_to_obs obs in
    with_arrivals09m lang files
      (fun l arrivals ->
         [ L [A "good"; of_bool (Model.good_C09_multi l pfx arrivals b o)];
           L [A "bad_defs"; of_list str_to_atom (List.filter (fun d -> not (Model.c9m_ldef_okb l arrivals b pfx d)) o.Model.c9_defs)];
           L [A "bad_refs"; of_list Drv_c09.c09_of_ref (List.filter (fun r -> not (Model.c9m_lref_okb l arrivals b pfx r)) o.Model.c9_refs)] ])
      [L [A "good"; A "false"]; L [A "bad_defs"; L []]; L [A "bad_refs"; L []]]
  | _ -> raise (Bad "c09_ws_good args")

let () = register "c09_ws_lclass" c09_ws_lclass
let () = register "c09_ws_good" c09_ws_good
