open Drv_base
open Drv_ast
open Drv_ir

let sort_by_name f l = List.sort (fun a b -> compare (f a) (f b)) l
let lang_name l = match of_lang l with A n -> n | _ -> ""
let kind_name k = match of_kind k with A n -> n | _ -> ""

(* canonical order for the two hash maps, as harness/libdrive/src/dump.rs prints them *)
let canon_field (f : Model.rfield) = { f with Model.fdecs = sort_by_name (fun (l, _) -> lang_name l) f.Model.fdecs }
let canon_decmap m = sort_by_name (fun (k, _) -> kind_name k) m
let canon_variant = function
  | Model.VAnon (fs, sh) -> Model.VAnon (List.map canon_field fs, sh)
  | v -> v
let canon_item = function
  | Model.ItStruct s -> Model.ItStruct { s with Model.sfields = List.map canon_field s.Model.sfields; Model.sdecs = canon_decmap s.Model.sdecs }
  | Model.ItEnum e ->
    let fix sh = { sh with Model.evariants = List.map canon_variant sh.Model.evariants; Model.edecs = canon_decmap sh.Model.edecs } in
    Model.ItEnum (match e with Model.EUnit sh -> Model.EUnit (fix sh) | Model.EAlgebraic (t, c, sh) -> Model.EAlgebraic (t, c, fix sh))
  | Model.ItAlias a -> Model.ItAlias { a with Model.adecs = canon_decmap a.Model.adecs }
  | c -> c

let of_parsed (pd : Model.parsed) : sx =
  L [ A "parsed";
      of_list (fun s -> of_ritem (canon_item (Model.ItStruct s))) pd.Model.p_structs;
      of_list (fun e -> of_ritem (canon_item (Model.ItEnum e))) pd.Model.p_enums;
      of_list (fun a -> of_ritem (canon_item (Model.ItAlias a))) pd.Model.p_aliases;
      of_list (fun c -> of_ritem (Model.ItConst c)) pd.Model.p_consts;
      of_list str_to_atom pd.Model.p_type_names;
      of_list perr_to_sx pd.Model.p_errors ]

(* (parse <file> <tstrs> <target_os>) *)
let parse args =
  match args with
  | [file; tstrs; t] ->
    let o = Model.parse_file uc (to_tstr tstrs) (to_list to_str t) (to_file file) in
    outcome_to_sx (of_opt of_parsed) o
  | _ -> raise (Bad "parse args")

(* (parse_type <ty>) -> outcome rtype *)
let parse_type args =
  match args with
  | [t] -> outcome_to_sx of_rtype (Model.parse_ty (to_ty t))
  | _ -> raise (Bad "parse_type args")

let () = register "parse" parse; register "parse_type" parse_type
