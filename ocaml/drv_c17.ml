open Drv_base

(* C17 codecs.
   fs       ::= ((<path> <bytes> n<mtime>) ...)            path, bytes: s<b>.<b>... (one number per byte)
   gen      ::= (gen <bytes>) | fail
   outputs  ::= (parse_errors) | (single <path> none|(some <gen>)) | (multi <folder> ((<name> <gen>) ...) none|(some <bytes>)) *)

let to_fs (x : sx) : Model.fs =
  to_list (function L [p; b; m] -> (to_str p, (to_str b, to_n m)) | _ -> raise (Bad "fs entry")) x

let of_fs (s : Model.fs) : sx =
  of_list (fun (p, (b, m)) -> L [str_to_atom p; str_to_atom b; n_to_atom m]) s

let to_gen (x : sx) : Model.gen_result =
  match x with
  | L [A "gen"; b] -> Model.Generated (to_str b)
  | A "fail" -> Model.GenFailed
  | _ -> raise (Bad "gen result")

let to_outputs (x : sx) : Model.outputs =
  match x with
  | L [A "parse_errors"] -> Model.ParseErrors
  | L [A "single"; p; pd] -> Model.SingleFile (to_str p, to_opt to_gen pd)
  | L [A "multi"; folder; crates; codable] ->
    Model.MultiFile (to_str folder,
                     to_list (function L [n; g] -> (to_str n, to_gen g) | _ -> raise (Bad "crate")) crates,
                     to_opt to_str codable)
  | _ -> raise (Bad "outputs")

let of_status (e : Model.exit_status) : sx = match e with Model.ExitOk -> A "ok" | Model.ExitErr -> A "err"

(* (c17_run <fs> ((n<clock> <outputs>) ...)) -> ((<status> <fs>) ...) : the state after every run *)
let c17_run args =
  match args with
  | [s; h] ->
    let h = to_list (function L [t; o] -> (to_n t, to_outputs o) | _ -> raise (Bad "run")) h in
    of_list (fun (s', st) -> L [of_status st; of_fs s']) (Model.run_trace (to_fs s) h)
  | _ -> raise (Bad "c17_run")

(* (c17_case <init fs> (<outputs of version v> ...) (<observed fs after a run of version v into an empty location> ...)
             ((n<clock> n<v> <observed fs after this run>) ...))
   -> one record per run: the model's state and exit status after the run, the Spec's view of the
      run (succeeds, dom, known class, responsible paths, reachable paths, non-empty outputs) and the
      Spec's verdicts on the OBSERVED file systems. *)
let c17_case args =
  match args with
  | [init; versions; fresh; runs] ->
    let versions = Array.of_list (to_list to_outputs versions) in
    let fresh = Array.of_list (to_list to_fs fresh) in
    let runs = to_list (function L [t; v; obs] -> (to_n t, to_int v, to_fs obs) | _ -> raise (Bad "run")) runs in
    let init = to_fs init in
    let trace = Model.run_trace init (List.map (fun (t, v, _) -> (t, versions.(v))) runs) in
    let rec go prev_obs runs trace =
      match runs, trace with
      | (_, v, obs) :: runs', (ms, st) :: trace' ->
        let o = versions.(v) in
        let resp = List.map fst (Model.responsible o) in
        L [ L [A "status"; of_status st]; L [A "fs"; of_fs ms];
            L [A "succeeds"; of_bool (Model.succeeds o)];
            L [A "dom"; of_bool (Model.dom_C17 o)];
            L [A "known"; of_opt str_to_atom (Model.known_C17 o)];
            L [A "resp"; of_list str_to_atom resp];
            L [A "touch"; of_list str_to_atom (Model.may_touch o)];
            L [A "nonempty"; of_bool (Model.nonempty_outputs o)];
            L [A "good_fresh"; of_bool (Model.good_fresh resp obs fresh.(v))];
            L [A "good_rerun"; of_bool (Model.good_rerun prev_obs obs)] ]
        :: go obs runs' trace'
      | [], [] -> []
      | _ -> raise (Bad "trace length") in
    L (go init runs trace)
  | _ -> raise (Bad "c17_case")

let () = register "c17_run" c17_run; register "c17_case" c17_case
