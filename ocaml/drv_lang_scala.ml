(* ---- Scala ---- *)
open Drv_base
open Drv_gen

let () = register_backend "scala" (fun cfg pd ->
  let c = { Model.sc_package = cfg_str cfg "package"; Model.sc_module_name = cfg_str cfg "module_name";
            Model.sc_type_mappings = cfg_map cfg "type_mappings";
            Model.sc_no_version_header = cfg_bool cfg "no_version_header" true;
            Model.sc_version = cfg_str cfg "version" } in
  Model.sc_generate uc c pd)
let () = register_decls "scala" (fun cfg pd ->
  let c = { Model.sc_package = cfg_str cfg "package"; Model.sc_module_name = cfg_str cfg "module_name";
            Model.sc_type_mappings = cfg_map cfg "type_mappings";
            Model.sc_no_version_header = cfg_bool cfg "no_version_header" true;
            Model.sc_version = cfg_str cfg "version" } in
  Model.sc_file_decls uc c pd)
