open Drv_base

let zs (z : Model.z) : string = plain_of_str (Model.dec_of_Z z)
let oz = function None -> "-" | Some z -> zs z
let z8 = Model.Z.of_N (n_of_int 8) and z16 = Model.Z.of_N (n_of_int 16) and z32 = Model.Z.of_N (n_of_int 32) and z64 = Model.Z.of_N (n_of_int 64)

(* the same canonical line harness/libdrive/src/c18.rs prints; the F and J fields (value after a trip
   through an IEEE double) are, by theorem C18_safe_through_double, the value itself *)
let line unsigned (v : Model.z) : string =
  let t = if unsigned then Model.u53_try_from v else Model.i54_try_from v in
  match t with
  | None -> "T:-"
  | Some x ->
    let back = if unsigned then Model.u53_into_u64 x else Model.i54_into_i64 x in
    let nar b = if unsigned then Model.narrow_unsigned b x else Model.narrow_signed b x in
    let ser = plain_of_str (Model.ser_text x) in
    let de = if unsigned then Model.deser_u53 (Model.ser_int x) else Model.deser_i54 (Model.ser_int x) in
    String.concat "|" [ "T:" ^ zs x; "B:" ^ zs back; "N8:" ^ oz (nar z8); "N16:" ^ oz (nar z16); "N32:" ^ oz (nar z32);
                        "S:" ^ ser; "D:" ^ oz de;
                        "U:" ^ (if unsigned then zs (Model.usize_from_u53_saturated z64 x) else "-");
                        "F:" ^ zs x; "J:" ^ zs x; "E:" ^ (if Model.int_eqb x back then "1" else "0") ]

let c18 args =
  match args with
  | [A ty; v] -> A (line (ty = "u53") (to_z v))
  | _ -> raise (Bad "c18")

let c18_from args =
  match args with
  | [A from; v] -> let unsigned = from.[0] = 'u' in A (line unsigned (Model.widen (to_z v)))
  | _ -> raise (Bad "c18_from")

let c18_json args =
  match args with
  | [A ty; neg; n; fl] ->
    let l = { Model.j_neg = to_bool neg; Model.j_int = to_z n; Model.j_float = to_bool fl } in
    A (oz (if ty = "u53" then Model.deser_u53 l else Model.deser_i54 l))
  | _ -> raise (Bad "c18_json")

let c18_cmp args =
  match args with
  | [a; b] ->
    let a = to_z a and b = to_z b in
    let c = match Model.int_cmp a b with Model.Lt -> "Less" | Model.Eq -> "Equal" | Model.Gt -> "Greater" in
    A (Printf.sprintf "%s|%b|%s" c (Model.int_eqb a b) c)
  | _ -> raise (Bad "c18_cmp")

let () =
  register "c18" c18; register "c18_from" c18_from; register "c18_json" c18_json; register "c18_cmp" c18_cmp
