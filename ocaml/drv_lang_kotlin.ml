(* ---- Kotlin ---- : the same cfg keys as harness/libdrive/src/gen.rs reads for `Kotlin { .. }` *)
open Drv_base
open Drv_gen

let () = register_backend "kotlin" (fun cfg pd ->
  let c = { Model.kt_package = cfg_str cfg "package"; Model.kt_module_name = cfg_str cfg "module_name";
            Model.kt_prefix = cfg_str cfg "prefix"; Model.kt_type_mappings = cfg_map cfg "type_mappings";
            Model.kt_no_version_header = cfg_bool cfg "no_version_header" true;
            Model.kt_version = cfg_str cfg "version" } in
  Model.kt_generate uc c pd)
let () = register_decls "kotlin" (fun cfg pd ->
  let c = { Model.kt_package = cfg_str cfg "package"; Model.kt_module_name = cfg_str cfg "module_name";
            Model.kt_prefix = cfg_str cfg "prefix"; Model.kt_type_mappings = cfg_map cfg "type_mappings";
            Model.kt_no_version_header = cfg_bool cfg "no_version_header" true;
            Model.kt_version = cfg_str cfg "version" } in
  Model.kt_file_decls uc c pd)
