(* C03: commands evaluating the extracted spec predicates of Spec/C03Spec.v on observations, and the
   model's own observations.  No logic beyond (de)serialisation. *)
open Drv_base
open Drv_ast
open Drv_ir
open Drv_gen

let c03_of_nat (n : Model.nat) : sx = A ("n" ^ string_of_int (int_of_nat n))
let c03_strs l = of_list str_to_atom l

let c03_leaf_kind = function
  | Model.IStruct _ -> "struct" | Model.IEnum _ -> "enum" | Model.IType _ -> "type" | Model.IConst _ -> "const"
  | Model.IUse _ -> "use" | Model.INest _ -> "nest"

let c03_to_obs (x : sx) : Model.c03_front_obs =
  match x with
  | A "none" -> Model.c03_obs_of_parsed None
  | L [ss; es; als; cs; n] ->
    { Model.c03_structs = to_list to_str ss; Model.c03_enums = to_list to_str es; Model.c03_aliases = to_list to_str als;
      Model.c03_consts = to_list to_str cs; Model.c03_nerr = nat_of_int (to_int n) }
  | _ -> raise (Bad "c03 obs")

let c03_of_obs (o : Model.c03_front_obs) : sx =
  L [c03_strs o.Model.c03_structs; c03_strs o.Model.c03_enums; c03_strs o.Model.c03_aliases; c03_strs o.Model.c03_consts;
     c03_of_nat o.Model.c03_nerr]

(* (c03_front FILE TSTRS T IMPL_OBS) -> (dom expected model good_model good_impl) *)
let c03_front args =
  match args with
  | [file; tstrs; t; impl] ->
    let f = to_file file and tstr = to_tstr tstrs and t = to_list to_str t in
    let exp = Model.expected_leaves t f in
    let m = Model.parse_file uc tstr t f in
    let good_model = match m with Model.Ok r -> of_bool (Model.good_C03_front t f (Model.c03_obs_of_parsed r)) | _ -> A "na" in
    let good_impl = match impl with A "na" -> A "na" | _ -> of_bool (Model.good_C03_front t f (c03_to_obs impl)) in
    L [ of_bool (Model.dom_C03_front f);
        of_list (fun it -> L [A (c03_leaf_kind it); str_to_atom (Model.leaf_ident it)]) exp;
        outcome_to_sx (fun r -> c03_of_obs (Model.c03_obs_of_parsed r)) m;
        good_model; good_impl ]
  | _ -> raise (Bad "c03_front args")

(* (c03_members FILE T) -> per expected leaf (kind ident dom members)
   members = (fields (name..)) | (variants ((name form (name..)|none)..)) | none *)
let c03_members args =
  match args with
  | [file; t] ->
    let f = to_file file and t = to_list to_str t in
    of_list (fun it ->
      let members = match it with
        | Model.IStruct (_, _, _, Model.FNamed l) -> L [A "fields"; c03_strs (Model.expected_field_names t l)]
        | Model.IEnum (_, _, _, vs) ->
          let kept = List.filter (fun v -> not (Model.member_skipped t v.Model.v_attrs)) vs in
          L [A "variants";
             of_list (fun v ->
               let name = match Model.expected_variant_names t [v] with [n] -> n | _ -> [] in
               match v.Model.v_fields with
               | Model.FNamed l -> L [str_to_atom name; A "struct"; c03_strs (Model.expected_field_names t l)]
               | Model.FUnnamed _ -> L [str_to_atom name; A "tuple"; A "none"]
               | Model.FUnit -> L [str_to_atom name; A "unit"; A "none"]) kept;
             c03_strs (Model.expected_variant_names t vs)]
        | _ -> A "none" in
      L [A (c03_leaf_kind it); str_to_atom (Model.leaf_ident it); of_bool (Model.dom_C03_members it); members])
      (Model.expected_leaves t f)
  | _ -> raise (Bad "c03_members args")

(* ---- signatures ---- *)
let c03_to_kind = function
  | A "struct" -> Model.DStruct | A "enum" -> Model.DEnum | A "alias" -> Model.DAlias | A "const" -> Model.DConst
  | A "helper" -> Model.DHelper | _ -> raise (Bad "defkind")
(* an OBSERVED definition (from lib/extract.py on the real tool's text) as a Decl.decl carrying exactly what
   was observed: (def KIND (member key ..) ((wire form (inline key ..)|none) ..)); its signature is then
   computed by the extracted c03_sig_of *)
let c03_member (k : Model.str) : Model.member =
  { Model.mb_name = k; Model.mb_escaped = false; Model.mb_key = k; Model.mb_binding = Model.BName; Model.mb_optional = false;
    Model.mb_type = Model.XRaw []; Model.mb_docs = [] }
let c03_to_variantd = function
  | L [w; A form; inl] ->
    let payload = match form, inl with
      | "unit", _ -> Model.PayUnit
      | "newtype", _ -> Model.PayNewtype (Model.XRaw [], false)
      | "struct", A "none" -> Model.PayRef ([], [])
      | "struct", ms -> Model.PayInline (List.map c03_member (to_list to_str ms))
      | _ -> raise (Bad "payload form") in
    { Model.vd_name = to_str w; Model.vd_wire = to_str w; Model.vd_payload = payload; Model.vd_parent = None; Model.vd_docs = [] }
  | _ -> raise (Bad "observed variant")
let c03_to_decl = function
  | L [A "def"; k; ms; vs] ->
    { Model.d_kind = c03_to_kind k; Model.d_name = []; Model.d_escaped = false; Model.d_generics = []; Model.d_docs = [];
      Model.d_members = List.map c03_member (to_list to_str ms); Model.d_variants = to_list c03_to_variantd vs;
      Model.d_tag_keys = []; Model.d_content_keys = []; Model.d_type = None; Model.d_value = None }
  | _ -> raise (Bad "observed def")
let c03_to_sig x = Model.c03_sig_of (c03_to_decl x)
let c03_of_sig (x : Model.c03_sig) : sx =
  L [A "sig"; of_defkind x.Model.xs_kind; c03_strs x.Model.xs_members; c03_strs x.Model.xs_variants; of_list c03_strs x.Model.xs_inline]

let c03_of_known k = of_opt (fun c -> A (coqstring c)) k
let c03_to_lang = function
  | A "go" -> Model.Go | A "kotlin" -> Model.Kotlin | A "scala" -> Model.Scala | A "swift" -> Model.Swift
  | A "typescript" -> Model.TypeScript | A "python" -> Model.Python | x -> to_lang x

(* (c03_back LANG FILE T OBSERVED) -> (dom known good expected)    judged from the SOURCE *)
let c03_back args =
  match args with
  | [lang; file; t; obs] ->
    let l = c03_to_lang lang and f = to_file file and t = to_list to_str t and obs = to_list c03_to_sig obs in
    L [ of_bool (Model.dom_C03_src_file t f);
        c03_of_known (Model.known_C03_src_file uc t l f);
        of_bool (Model.good_C03_src_file uc t l f obs);
        of_list c03_of_sig (Model.c03_src_file_expected uc t l f) ]
  | _ -> raise (Bad "c03_back args")

(* (c03_back_ir LANG ITEMS OBSERVED) -> (dom known good expected)  judged from the IR the back end was given *)
let c03_back_ir args =
  match args with
  | [lang; items; obs] ->
    let l = c03_to_lang lang and pd = to_parsed_items items and obs = to_list c03_to_sig obs in
    let exp = List.concat_map (Model.c03_expected_sigs l) (Model.c03_all_items pd) in
    L [ of_bool (Model.dom_C03_file pd);
        c03_of_known (Model.known_C03_file uc l pd);
        of_bool (Model.good_C03_sigs obs exp);
        of_list c03_of_sig exp ]
  | _ -> raise (Bad "c03_back_ir args")

(* the model's observation of a generated file: per definition (kind name sig payload-forms) *)
let c03_of_variantd (v : Model.variantd) : sx =
  match v.Model.vd_payload with
  | Model.PayUnit -> L [str_to_atom v.Model.vd_wire; A "unit"; A "none"]
  | Model.PayNewtype _ -> L [str_to_atom v.Model.vd_wire; A "newtype"; A "none"]
  | Model.PayRef _ -> L [str_to_atom v.Model.vd_wire; A "struct"; A "none"]
  | Model.PayInline ms -> L [str_to_atom v.Model.vd_wire; A "struct"; of_list (fun m -> str_to_atom m.Model.mb_key) ms]
let c03_of_decl (d : Model.decl) : sx =
  L [of_defkind d.Model.d_kind; str_to_atom d.Model.d_name;
     of_list (fun m -> str_to_atom m.Model.mb_key) d.Model.d_members;
     of_list c03_of_variantd d.Model.d_variants]

(* (c03_model LANG CFG FILE TSTRS T) -> like decls_src, reduced to the observation of C03 *)
let c03_model args =
  match args with
  | [A lang; cfg; file; tstrs; t] ->
    (match Model.parse_file uc (to_tstr tstrs) (to_list to_str t) (to_file file) with
     | Model.Ok None -> L [A "none"]
     | Model.Ok (Some pd) ->
       if pd.Model.p_errors <> [] then L [A "parse_errors"; of_list perr_to_sx pd.Model.p_errors]
       else outcome_to_sx (fun fd -> of_list c03_of_decl fd.Model.fd_decls) (decls_of lang cfg (reconcile_single pd))
     | Model.Err e -> L [A "parse_err"; perr_to_sx e]
     | Model.Panic s -> L [A "panic"; A (coqstring s)])
  | _ -> raise (Bad "c03_model args")

let () =
  register "c03_front" c03_front; register "c03_members" c03_members; register "c03_back" c03_back;
  register "c03_back_ir" c03_back_ir; register "c03_model" c03_model
