open Drv_base

let dispatch (x : sx) : sx =
  match x with
  | L (A cmd :: args) ->
    (match Hashtbl.find_opt handlers cmd with
     | Some f -> f args
     | None -> raise (Bad ("unknown command " ^ cmd)))
  | _ -> raise (Bad "command expected")

let () =
  let b = Buffer.create 4096 in
  (try
    while true do
      let line = input_line stdin in
      if String.length line > 0 then begin
        Buffer.clear b;
        (try print_sx b (dispatch (parse_line line))
         with Bad m -> Buffer.clear b; Buffer.add_string b ("(bad " ^ String.escaped m ^ ")")
            | Stack_overflow -> Buffer.clear b; Buffer.add_string b "(bad stack_overflow)");
        print_string (Buffer.contents b); print_newline ()
      end
    done
  with End_of_file -> ())
