(* C10: the extracted lexers / class predicates / keyword predicates of Spec/C10Spec.v on text and
   observations handed in by checks/c10.py. No logic of its own. *)
open Drv_base

let c10_lang = function
  | A "typescript" -> Model.CTS | A "kotlin" -> Model.CKT | A "swift" -> Model.CSW
  | A "scala" -> Model.CSC | A "go" -> Model.CGO | A "python" -> Model.CPY
  | _ -> raise (Bad "c10 lang")

let lmode_to_sx (m : Model.c10_lmode) : sx =
  match m with
  | Model.C10LCode -> A "code" | Model.C10LSlash -> A "slash" | Model.C10LLine -> A "line-comment"
  | Model.C10LBlock _ | Model.C10LBlockStar _ | Model.C10LBlockSlash _ -> A "block-comment"
  | Model.C10LQ1 _ | Model.C10LQ2 _ | Model.C10LStr _ | Model.C10LStrEsc _ -> A "string"
  | Model.C10LTri _ | Model.C10LTriEsc _ | Model.C10LTri1 _ | Model.C10LTri2 _ -> A "triple-string"
  | Model.C10LRaw -> A "raw-string" | Model.C10LTpl | Model.C10LTplEsc -> A "template" | Model.C10LTick -> A "backtick-identifier"
  | Model.C10LErr -> A "error"

let state_to_sx ((m, st) : Model.c10_lstate) : sx =
  L [lmode_to_sx m; A ("n" ^ string_of_int (List.length st)); str_to_atom st]

(* (c10_lex LANG TEXT) -> (c10_balanced) | (error nPOS STATE) | (open STATE) *)
let c10_lex args =
  match args with
  | [lang; text] ->
    (match Model.c10_lex (c10_lang lang) (to_str text) with
     | Model.C10LexBalanced -> L [A "balanced"]
     | Model.C10LexErrorAt (pos, s) -> L [A "error"; n_to_atom pos; state_to_sx s]
     | Model.C10LexOpenAtEnd s -> L [A "open"; state_to_sx s])
  | _ -> raise (Bad "c10_lex args")

(* (c10_cls LANG PACKAGE ITEMS) -> ((dom BOOL) (known (CLASS ...))) on the IR the REAL parser produced *)
let c10_cls args =
  match args with
  | [lang; package; items] ->
    let pd = Drv_gen.to_parsed_items items in
    let l = c10_lang lang in
    L [L [A "dom"; of_bool (Model.dom_C10 l pd)];
       L [A "known"; of_list (fun c -> A (coqstring c)) (Model.known_C10 l (to_str package) pd)]]
  | _ -> raise (Bad "c10_cls args")

(* observation of declaring positions: ((NAME ESCAPED ((MNAME MESCAPED) ...)) ...) *)
let to_obs_member = function
  | L [n; e] ->
    { Model.mb_name = to_str n; Model.mb_escaped = to_bool e; Model.mb_key = []; Model.mb_binding = Model.BName;
      Model.mb_optional = false; Model.mb_type = Model.XRaw []; Model.mb_docs = [] }
  | _ -> raise (Bad "c10 member")
let to_obs_decl = function
  | L [n; e; ms] ->
    { Model.d_kind = Model.DStruct; Model.d_name = to_str n; Model.d_escaped = to_bool e; Model.d_generics = []; Model.d_docs = [];
      Model.d_members = to_list to_obs_member ms; Model.d_variants = []; Model.d_tag_keys = []; Model.d_content_keys = [];
      Model.d_type = None; Model.d_value = None }
  | _ -> raise (Bad "c10 decl")

(* (c10_kw LANG DECLS LABELS) -> ((kw BOOL) (labels BOOL)) *)
let c10_kw args =
  match args with
  | [lang; decls; labels] ->
    L [L [A "kw"; of_bool (Model.good_C10_kw (c10_lang lang) (to_list to_obs_decl decls))];
       L [A "labels"; of_bool (Model.good_C10_swift_labels (to_list to_str labels))]]
  | _ -> raise (Bad "c10_kw args")

(* the model's own declarations judged by the same predicate: (c10_kw_model LANG CFG FILE TSTRS T) *)
let c10_kw_model args =
  match args with
  | [A lang; cfg; file; tstrs; t] ->
    (match Model.parse_file uc (Drv_ast.to_tstr tstrs) (to_list to_str t) (Drv_ast.to_file file) with
     | Model.Ok (Some pd) when pd.Model.p_errors = [] ->
       (match Drv_gen.decls_of lang cfg (Drv_gen.reconcile_single pd) with
        | Model.Ok fd ->
          L [A "ok"; of_bool (Model.good_C10_kw (c10_lang (A lang)) fd.Model.fd_decls);
             of_list (fun (d : Model.decl) ->
               L [str_to_atom d.Model.d_name; of_bool d.Model.d_escaped;
                  of_list (fun (m : Model.member) -> L [str_to_atom m.Model.mb_name; of_bool m.Model.mb_escaped]) d.Model.d_members])
               (List.filter (fun (d : Model.decl) -> d.Model.d_kind <> Model.DHelper) fd.Model.fd_decls)]
        | _ -> L [A "none"])
     | _ -> L [A "none"])
  | _ -> raise (Bad "c10_kw_model args")

(* (c10_ts_parse TEXT) -> (some nN) = N declarations of the TypeScript declaration grammar | none *)
let c10_ts_parse args =
  match args with
  | [text] -> of_opt (fun n -> A ("n" ^ string_of_int (int_of_nat n))) (Model.c10_ts_recognise (to_str text))
  | _ -> raise (Bad "c10_ts_parse args")

(* (c10_cfg LANG CFG) -> bool: the configuration is admissible for the whole-file theorem of the language *)
let c10_cfg args =
  let open Drv_gen in
  match args with
  | [A lang; cfg] ->
    of_bool
      (match lang with
       | "typescript" ->
         Model.c10_ts_cfg_ok { Model.ts_type_mappings = cfg_map cfg "type_mappings"; Model.ts_no_version_header = cfg_bool cfg "no_version_header" true;
                               Model.ts_version = cfg_str cfg "version" }
       | "kotlin" ->
         Model.c10_kt_cfg_ok { Model.kt_package = cfg_str cfg "package"; Model.kt_module_name = cfg_str cfg "module_name";
                               Model.kt_prefix = cfg_str cfg "prefix"; Model.kt_type_mappings = cfg_map cfg "type_mappings";
                               Model.kt_no_version_header = cfg_bool cfg "no_version_header" true; Model.kt_version = cfg_str cfg "version" }
       | "scala" ->
         Model.c10_sc_cfg_ok { Model.sc_package = cfg_str cfg "package"; Model.sc_module_name = cfg_str cfg "module_name";
                               Model.sc_type_mappings = cfg_map cfg "type_mappings";
                               Model.sc_no_version_header = cfg_bool cfg "no_version_header" true; Model.sc_version = cfg_str cfg "version" }
       | "go" -> Model.c10_go_cfg_ok (Drv_lang_go.go_config cfg)
       | "swift" -> Model.c10_sw_cfg_ok (Drv_lang_swift.sw_config_of cfg)
       | "python" ->
         Model.c10_py_cfg_ok { Model.py_type_mappings = cfg_map cfg "type_mappings"; Model.py_no_version_header = cfg_bool cfg "no_version_header" true;
                               Model.py_version = cfg_str cfg "version" }
       | _ -> raise (Bad "c10_cfg lang"))
  | _ -> raise (Bad "c10_cfg args")

let () = register "c10_lex" c10_lex; register "c10_cls" c10_cls; register "c10_kw" c10_kw; register "c10_kw_model" c10_kw_model;
  register "c10_ts_parse" c10_ts_parse; register "c10_cfg" c10_cfg
