(* C07: the declarative predicates of Spec/C07Spec.v (which items must be diagnosed) next to what the model does on each leaf *)
open Drv_base
open Drv_ast

let parse_leaf7 tstr t (it : Model.item) : Model.ritem Model.outcome =
  match it with
  | Model.IStruct (a, i, g, fs) -> Model.parse_struct uc tstr t a i g fs
  | Model.IEnum (a, i, g, vs) -> Model.parse_enum uc tstr t a i g vs
  | Model.IType (a, i, g, ty) -> Model.parse_type_alias uc tstr a i g ty
  | Model.IConst (a, i, ty, e) -> Model.parse_const uc tstr a i ty e
  | _ -> raise (Bad "leaf")

(* (c07 FILE TSTRS T) -> (front_complete ((ident leaf_complete ok|err|panic site)..))   one entry per expected leaf *)
let c07 args =
  match args with
  | [file; tstrs; t] ->
    let f = to_file file and tstr = to_tstr tstrs and t = to_list to_str t in
    L [ of_bool (Model.front_complete uc tstr t f);
        of_list (fun it ->
          let kind, site = match parse_leaf7 tstr t it with
            | Model.Ok _ -> "ok", "-" | Model.Err _ -> "err", "-" | Model.Panic s -> "panic", coqstring s in
          L [ str_to_atom (Model.leaf_ident it); of_bool (Model.leaf_complete uc tstr t it); A kind; A site ])
          (Model.expected_leaves t f) ]
  | _ -> raise (Bad "c07 args")

let () = register "c07" c07
