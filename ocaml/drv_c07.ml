(* C07: the declarative predicates of Spec/C07Spec.v (which items must be diagnosed) next to what the model does on each leaf *)
open Drv_base
open Drv_ast

let parse_leaf7 tstr t (it : Model.item) : Model.ritem Model.outcome =
  match it with
  | Model.IStruct (a, i, g, fs) -> Model.parse_struct uc tstr t a i g fs
  | Model.IEnum (a, i, g, vs) -> Model.parse_enum uc tstr t a i g vs
  | Model.IType (a, i, g, ty) -> Model.parse_type_alias uc tstr a i g ty
  | Model.IConst (a, i, ty, e) -> Model.parse_const uc tstr a i ty e
  | _ -> raise (Bad "leaf")

(* (c07 FILE TSTRS T) -> (front_complete ((ident leaf_complete ok|err|panic site)..))   one entry per expected leaf *)
let c07 args =
  match args with
  | [file; tstrs; t] ->
    let f = to_file file and tstr = to_tstr tstrs and t = to_list to_str t in
    L [ of_bool (Model.front_complete uc tstr t f);
        of_list (fun it ->
          let kind, site = match parse_leaf7 tstr t it with
            | Model.Ok _ -> "ok", "-" | Model.Err _ -> "err", "-" | Model.Panic s -> "panic", coqstring s in
          L [ str_to_atom (Model.leaf_ident it); of_bool (Model.leaf_complete uc tstr t it); A kind; A site ])
          (Model.expected_leaves t f) ]
  | _ -> raise (Bad "c07 args")

(* (c07_multi FILE TSTRS OWN) -> parser::parse with multi_file = true (Model.MultiFile.parse_file_multi, crate OWN, no ignored
   types, identity hash order):  (panic site) | (err e) | (ok none) | (ok (some (nstructs nenums naliases nconsts nerrors ((crate name)..)))) *)
let c07_multi args =
  match args with
  | [file; tstrs; own] ->
    let f = to_file file and tstr = to_tstr tstrs in
    (match Model.parse_file_multi uc tstr [] (to_str own) [] (fun l -> l) f with
     | Model.Panic s -> L [A "panic"; A (coqstring s)]
     | Model.Err e -> L [A "err"; perr_to_sx e]
     | Model.Ok None -> L [A "ok"; A "none"]
     | Model.Ok (Some pd) ->
       let n l = A ("n" ^ string_of_int (List.length l)) in
       L [A "ok"; L [A "some"; L [n pd.Model.p_structs; n pd.Model.p_enums; n pd.Model.p_aliases; n pd.Model.p_consts; n pd.Model.p_errors;
                                  of_list (fun i -> L [str_to_atom i.Model.base_crate; str_to_atom i.Model.type_name]) pd.Model.p_imports]]])
  | _ -> raise (Bad "c07_multi args")

(* (c07_error_classes) -> ((Constructor item_rejection config_rejection)..): the extracted Spec predicates on one value of every
   constructor of perr (they do not look at the payload) *)
let c07_error_classes _ =
  let s = [] in
  let all = [ Model.ESyn; Model.EUnsupportedType []; Model.EUnexpectedToken; Model.EParameterizedTuple; Model.ENumericLiteral;
              Model.EUnsupportedLanguage s; Model.EUnsupportedTypeP s; Model.EComplexTupleStruct; Model.EMultipleUnnamed;
              Model.ESerdeTagNotAllowed s; Model.ESerdeContentNotAllowed s; Model.ESerdeTagRequired s; Model.ESerdeContentRequired s;
              Model.EConstExprInvalid; Model.EConstTypeInvalid; Model.ESerdeFlatten; Model.EIO; Model.EGenericsForbiddenInGo s;
              Model.EGenericKeyForbiddenInTS s; Model.EUnsupportedSpecialType s; Model.EConstUnsupported s; Model.EPackageRequired ] in
  of_list (fun e ->
    let name = match perr_to_sx e with A a -> A a | L (A a :: _) -> A a | x -> x in
    L [name; of_bool (Model.c07_item_rejection e); of_bool (Model.c07_config_rejection e)]) all

let () = register "c07" c07; register "c07_multi" c07_multi; register "c07_error_classes" c07_error_classes
