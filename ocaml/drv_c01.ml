(* C01: serde's keys of the annotated items of a source file (Spec/C01Spec.v over the syn-level AST) and the
   extracted verdict predicates on observed member lists. *)
open Drv_base
open Drv_ast
open Drv_ir

let of_groups gs = of_list (of_list str_to_atom) gs

(* (c01_expected <target_os> <file>) -> ((ident kind in_dom (variant idents) (some ((key..)..)) | none) ..)
   one entry per annotated struct / enum / alias / const of the file, in source order *)
let c01_expected args =
  match args with
  | [t; file] ->
    let l = Model.c01_file_expected (to_list to_str t) (to_file file) in
    of_list (fun ((((ident, kind), dom), vids), groups) ->
      L [str_to_atom ident; n_to_atom kind; of_bool dom; of_list str_to_atom vids; of_opt of_groups groups]) l
  | _ -> raise (Bad "c01_expected args")

let to_binding = function
  | A "name" -> Model.BName | A "quoted" -> Model.BQuoted | A "serial_name" -> Model.BSerialName
  | A "coding_key" -> Model.BCodingKey | A "json_tag" -> Model.BJsonTag | A "alias" -> Model.BAlias
  | _ -> raise (Bad "binding")

let to_member = function
  | L [name; key; binding] ->
    { Model.mb_name = to_str name; Model.mb_escaped = false; Model.mb_key = to_str key; Model.mb_binding = to_binding binding;
      Model.mb_optional = false; Model.mb_type = Model.XRaw []; Model.mb_docs = [] }
  | _ -> raise (Bad "member")

(* (c01_judge <Lang> <expected groups> <observed groups>) : observed groups = ((name key binding) ..) .. *)
let c01_judge args =
  match args with
  | [lang; expected; groups] ->
    let l = to_lang lang in
    let ex = to_list (to_list to_str) expected in
    let gs = to_list (to_list to_member) groups in
    L [ L [A "dom"; of_bool (Model.dom_C01 l ex)];
        L [A "known"; of_opt (fun s -> A (coqstring s)) (Model.known_C01 l ex)];
        L [A "good"; of_bool (Model.good_groups_C01 l ex gs)];
        L [A "keys"; of_bool (Model.good_keys_C01 ex gs)];
        L [A "binding"; of_bool (Model.good_binding_C01 l gs)] ]
  | _ -> raise (Bad "c01_judge args")

let () = register "c01_expected" c01_expected; register "c01_judge" c01_judge
