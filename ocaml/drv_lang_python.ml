(* ---- Python ---- *)
open Drv_base
open Drv_gen

let () = register_backend "python" (fun cfg pd ->
  let c = { Model.py_type_mappings = cfg_map cfg "type_mappings"; Model.py_no_version_header = cfg_bool cfg "no_version_header" true;
            Model.py_version = cfg_str cfg "version" } in
  Model.py_generate uc c pd)
let () = register_decls "python" (fun cfg pd ->
  let c = { Model.py_type_mappings = cfg_map cfg "type_mappings"; Model.py_no_version_header = cfg_bool cfg "no_version_header" true;
            Model.py_version = cfg_str cfg "version" } in
  Model.py_file_decls uc c pd)
