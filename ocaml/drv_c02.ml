(* C02: the extracted expectation / dom / known / good of Spec/C02Spec.v on an observation that the
   check built from the REAL output (or from the model's Decl observation). *)
open Drv_base
open Drv_ast
open Drv_ir

let c02_lang = function
  | A ("typescript" | "TypeScript") -> Model.TypeScript | A ("kotlin" | "Kotlin") -> Model.Kotlin
  | A ("swift" | "Swift") -> Model.Swift | A ("scala" | "Scala") -> Model.Scala
  | A ("go" | "Go") -> Model.Go | A ("python" | "Python") -> Model.Python
  | _ -> raise (Bad "c02 lang")

(* (decl KIND ((NAME WIRE PAYLOADKIND) ..) (TAG ..) (CONTENT ..)): the facets good_C02 looks at *)
let c02_payload = function
  | A "unit" -> Model.PayUnit
  | A "newtype" -> Model.PayNewtype (Model.XRaw [], false)
  | A "struct" -> Model.PayRef ([], [])
  | _ -> raise (Bad "c02 payload kind")
let c02_defkind = function
  | A "struct" -> Model.DStruct | A "enum" -> Model.DEnum | A "alias" -> Model.DAlias | A "const" -> Model.DConst | A "helper" -> Model.DHelper
  | _ -> raise (Bad "c02 defkind")
let c02_variantd = function
  | L [n; w; p] -> { Model.vd_name = to_str n; Model.vd_wire = to_str w; Model.vd_payload = c02_payload p; Model.vd_parent = None; Model.vd_docs = [] }
  | _ -> raise (Bad "c02 variant")
let c02_decl = function
  | L [A "decl"; k; vs; tags; contents] ->
    { Model.d_kind = c02_defkind k; Model.d_name = []; Model.d_escaped = false; Model.d_generics = []; Model.d_docs = []; Model.d_members = [];
      Model.d_variants = to_list c02_variantd vs; Model.d_tag_keys = to_list to_str tags; Model.d_content_keys = to_list to_str contents;
      Model.d_type = None; Model.d_value = None }
  | _ -> raise (Bad "c02 decl")

let c02_of_kind = function Model.C02Unit -> A "unit" | Model.C02Newtype -> A "newtype" | Model.C02Struct -> A "struct"
let c02_of_expect (x : Model.c02_expect) : sx =
  L [ of_list str_to_atom x.Model.c02_idents; of_list str_to_atom x.Model.c02_wires; of_list c02_of_kind x.Model.c02_kinds;
      of_opt (fun (t, c) -> L [str_to_atom t; str_to_atom c]) x.Model.c02_keys ]

let c02_find_enum (f : Model.file) (name : Model.str) =
  let rec go = function
    | [] -> raise (Bad "c02: enum not found")
    | Model.IEnum (a, i, _, vs) :: _ when i = name -> (a, vs)
    | _ :: r -> go r in
  go (Model.leaves_of f.Model.fl_items)

(* (c02 LANG ACRONYMS FILE T ENUM OBS) -> (dom known good expect)
   ACRONYMS: true/false (the list is not empty), or the LIST itself: for Go the EXACT class known_C02_go is then used *)
let c02 args =
  match args with
  | [lang; acr; file; t; name; obs] ->
    let l = c02_lang lang and f = to_file file and t = to_list to_str t in
    let (attrs, vs) = c02_find_enum f (to_str name) in
    let ds = to_list c02_decl obs in
    let x = Model.c02_expect_src uc t attrs vs in
    let known =
      match acr, l with
      | L _, Model.Go -> Model.known_C02_go (to_list to_str acr) uc t attrs vs
      | L a, _ -> Model.known_C02 l (a <> []) uc t attrs vs
      | _, _ -> Model.known_C02 l (to_bool acr) uc t attrs vs in
    L [ of_bool (Model.dom_C02 uc t attrs vs);
        of_opt (fun c -> A (coqstring c)) known;
        (match x with Some x -> of_bool (Model.good_C02 l x ds) | None -> A "none");
        of_opt c02_of_expect x ]
  | _ -> raise (Bad "c02 args")

(* (c02_ir LANG ACRONYMS ENUM OBS) -> (dom_back known_back good expect): IR-level cases *)
let c02_ir args =
  match args with
  | [lang; acr; e; obs] ->
    let l = c02_lang lang and acr = to_bool acr in
    let x = Model.c02_expect_ir (to_renum e) in
    L [ of_bool (Model.dom_C02_back x);
        of_opt (fun c -> A (coqstring c)) (Model.known_C02_back l acr x);
        of_bool (Model.good_C02 l x (to_list c02_decl obs));
        c02_of_expect x ]
  | _ -> raise (Bad "c02_ir args")

(* (c02_py_key STR) / (c02_caps_norm STR): the spec's own naming functions, for exhaustive comparison *)
let () = register "c02" c02; register "c02_ir" c02_ir;
  register "c02_py_key" (function [s] -> str_to_atom (Model.c02_py_key (to_str s)) | _ -> raise (Bad "c02_py_key"));
  register "c02_caps_norm" (function [s] -> str_to_atom (Model.c02_caps_norm (to_str s)) | _ -> raise (Bad "c02_caps_norm"))
