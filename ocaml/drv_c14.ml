(* C14, multi-file mode.
   (c14 LANG CFG (NF NC NH) ((PATH FILE TSTRS) ...) OBS)
     LANG   typescript | kotlin | swift | scala | go | python
     CFG    as for gen_src (version, no_version_header, package, type_mappings, ...)
     NF NC NH  which iteration order the three hash containers are given (the model takes the order as
            an argument): NF per-file import set, NC per-crate import set, NH the CrateTypes map.
            n0 insertion order, n1 reversed, n2 glob imports first, n3 glob imports last (n2 / n3 were the two
            outcomes of finding C14-glob-order; since its /repo fix every order must give the same import list)
     files  in ARRIVAL order at the collector; PATH = the components of the path as Path::iter yields them
     OBS    none | (some ((CRATE ((MODULE NAME) ...)) ...)): import pairs observed in the implementation's
            output, judged by the extracted Spec.C14Spec predicates
   answer: ((status ..) (files ((NAME CRATE ((MODULE NAME)..) TEXT ((KIND ORIGINAL RENAMED)..)) ..)) (extra ((NAME TEXT)..))
            (spec (crates ((CRATE FILE CONVENTIONAL DEFS) ..))
                  (judge ((CRATE good (unsound ..) (refs (NAME FROM GENERATED imported (ELSEWHERE..) dom known unique) ..) (const_imports ..)) ..)))) *)
open Drv_base
open Drv_ast
open Drv_ir
open Drv_gen

let lang_of_name = function
  | "typescript" -> Model.TypeScript | "kotlin" -> Model.Kotlin | "swift" -> Model.Swift
  | "scala" -> Model.Scala | "go" -> Model.Go | "python" -> Model.Python
  | l -> raise (Bad ("lang " ^ l))

let is_glob (i : Model.imported) = i.Model.type_name = [n_of_int 42]

let import_order (n : int) : Model.imported list -> Model.imported list =
  match n with
  | 0 -> (fun l -> l)
  | 1 -> List.rev
  | 2 -> (fun l -> List.filter is_glob l @ List.filter (fun i -> not (is_glob i)) l)
  | 3 -> (fun l -> List.filter (fun i -> not (is_glob i)) l @ List.filter is_glob l)
  | _ -> raise (Bad "import order")
let crate_order (n : int) : Model.crate_types -> Model.crate_types =
  match n with
  | 0 | 2 -> (fun l -> l)
  | 1 | 3 -> List.rev
  | _ -> raise (Bad "crate order")

let to_entry = function
  | L [path; file; tstrs] -> { Model.we_path = to_list to_str path; Model.we_file = to_file file; Model.we_tstr = to_tstr tstrs }
  | _ -> raise (Bad "workspace entry")

let of_pairs (m : Model.scoped) : sx = of_list (fun (k, n) -> L [str_to_atom k; str_to_atom n]) (Model.scoped_pairs m)

let kind_of = function
  | Model.ItStruct _ -> "struct" | Model.ItEnum _ -> "enum" | Model.ItAlias _ -> "alias" | Model.ItConst _ -> "const"
let of_decls (pd : Model.parsed) : sx =
  of_list (fun it -> let i = Model.item_id it in L [A (kind_of it); str_to_atom i.Model.original; str_to_atom i.Model.renamed]) (Model.items_of pd)

(* one generator per language: state -> crate -> imports -> data -> outcome (text, state); the state is
   whatever the language value keeps between files *)
type gen_state = STs of Model.ts_state | SSw of Model.sw_state | SGo of Model.go_state | SPy of Model.py_state | SNone

let generator (lang : string) (cfg : sx) : gen_state * (gen_state -> Model.str -> Model.scoped -> Model.parsed -> (Model.str * gen_state) Model.outcome) =
  let lift f = function
    | Model.Ok (t, st) -> Model.Ok (t, f st)
    | Model.Err e -> Model.Err e
    | Model.Panic s -> Model.Panic s in
  match lang with
  | "typescript" ->
    let c = { Model.ts_type_mappings = cfg_map cfg "type_mappings"; Model.ts_no_version_header = cfg_bool cfg "no_version_header" true;
              Model.ts_version = cfg_str cfg "version" } in
    (STs [], fun st _ imports pd -> match st with STs s -> lift (fun x -> STs x) (Model.ts_generate_multi uc c s imports pd) | _ -> raise (Bad "state"))
  | "kotlin" ->
    let c = { Model.kt_package = cfg_str cfg "package"; Model.kt_module_name = cfg_str cfg "module_name";
              Model.kt_prefix = cfg_str cfg "prefix"; Model.kt_type_mappings = cfg_map cfg "type_mappings";
              Model.kt_no_version_header = cfg_bool cfg "no_version_header" true; Model.kt_version = cfg_str cfg "version" } in
    (SNone, fun st cn imports pd ->
       match Model.kt_generate_multi uc c cn imports pd with
       | Model.Ok t -> Model.Ok (t, st) | Model.Err e -> Model.Err e | Model.Panic s -> Model.Panic s)
  | "swift" ->
    let c = { Model.sw_prefix = cfg_str cfg "prefix"; Model.sw_type_mappings = cfg_map cfg "type_mappings";
              Model.sw_default_decorators = cfg_strs cfg "default_decorators";
              Model.sw_default_generic_constraints = cfg_strs cfg "default_generic_constraints";
              Model.sw_codablevoid_constraints = cfg_strs cfg "codablevoid_constraints";
              Model.sw_no_version_header = cfg_bool cfg "no_version_header" true; Model.sw_version = cfg_str cfg "version" } in
    (SSw false, fun st _ _ pd -> match st with SSw s -> lift (fun x -> SSw x) (Model.sw_generate_multi uc c s pd) | _ -> raise (Bad "state"))
  | "scala" ->
    let c = { Model.sc_package = cfg_str cfg "package"; Model.sc_module_name = cfg_str cfg "module_name";
              Model.sc_type_mappings = cfg_map cfg "type_mappings";
              Model.sc_no_version_header = cfg_bool cfg "no_version_header" true; Model.sc_version = cfg_str cfg "version" } in
    (SNone, fun st _ _ pd ->
       match Model.sc_generate uc c pd with
       | Model.Ok t -> Model.Ok (t, st) | Model.Err e -> Model.Err e | Model.Panic s -> Model.Panic s)
  | "go" ->
    let c = { Model.go_package = cfg_str cfg "package"; Model.go_type_mappings = cfg_map cfg "type_mappings";
              Model.go_uppercase_acronyms = cfg_strs cfg "uppercase_acronyms";
              Model.go_no_version_header = cfg_bool cfg "no_version_header" true;
              Model.go_no_pointer_slice = cfg_bool cfg "no_pointer_slice" false; Model.go_version = cfg_str cfg "version" } in
    (SGo [], fun st _ _ pd -> match st with SGo s -> lift (fun x -> SGo x) (Model.go_generate_multi uc c s pd) | _ -> raise (Bad "state"))
  | "python" ->
    let c = { Model.py_type_mappings = cfg_map cfg "type_mappings"; Model.py_no_version_header = cfg_bool cfg "no_version_header" true;
              Model.py_version = cfg_str cfg "version" } in
    (SPy Model.py_empty_state, fun st _ _ pd -> match st with SPy s -> lift (fun x -> SPy x) (Model.py_generate_multi uc c s pd) | _ -> raise (Bad "state"))
  | l -> raise (Bad ("no multi-file model for " ^ l))

let swift_codable (cfg : sx) (fin : gen_state Model.outcome) : Model.str option =
  match fin with
  | Model.Ok (SSw true) ->
    let c = { Model.sw_prefix = cfg_str cfg "prefix"; Model.sw_type_mappings = cfg_map cfg "type_mappings";
              Model.sw_default_decorators = cfg_strs cfg "default_decorators";
              Model.sw_default_generic_constraints = cfg_strs cfg "default_generic_constraints";
              Model.sw_codablevoid_constraints = cfg_strs cfg "codablevoid_constraints";
              Model.sw_no_version_header = cfg_bool cfg "no_version_header" true; Model.sw_version = cfg_str cfg "version" } in
    Some (Model.sw_codable_contents c)
  | _ -> None

(* the spec's view of the workspace: path, syntax, and what the annotated items of the file are *)
let src_infos (entries : Model.ws_entry list) : Model.src_info list =
  List.map (fun e ->
    let items = match Model.parse_file uc e.Model.we_tstr [] e.Model.we_file with
      | Model.Ok (Some pd) -> Model.items_of pd
      | _ -> [] in
    { Model.si_path = e.Model.we_path; Model.si_file = e.Model.we_file; Model.si_items = items }) entries

let of_verdict (v : Model.ref_verdict) : sx =
  L [str_to_atom v.Model.rv_name; str_to_atom v.Model.rv_from; str_to_atom v.Model.rv_generated_name; of_bool v.Model.rv_imported;
     of_list str_to_atom v.Model.rv_elsewhere; of_bool v.Model.rv_dom;
     of_opt (fun s -> A (coqstring s)) v.Model.rv_known; of_bool v.Model.rv_unique]

let spec_part (lang : Model.lang) (mapped : Model.str list) (entries : Model.ws_entry list) (obs : (Model.str * (Model.str * Model.str) list) list option) : sx =
  let ws = src_infos entries in
  let crates = Model.generated_crates ws in
  let paths = of_list (fun e -> L [of_list str_to_atom e.Model.we_path; of_opt str_to_atom (Model.crate_of e.Model.we_path)]) entries in
  let cr = of_list (fun c -> L [str_to_atom c; str_to_atom (Model.file_name14 lang c); of_bool (Model.conventional_crate c);
                                of_list str_to_atom (Model.defs_renamed ws c)]) crates in
  let judge = match obs with
    | None -> L []
    | Some o ->
      of_list (fun (c, pairs) ->
        L [str_to_atom c; of_bool (Model.good_C14 ws mapped c pairs);
           of_list (fun (m, n) -> L [str_to_atom m; str_to_atom n]) (Model.unsound_imports ws c pairs);
           of_list of_verdict (Model.judge_crate ws mapped c pairs);
           of_list (fun (m, n) -> L [str_to_atom m; str_to_atom n]) (Model.const_imports ws pairs)]) o in
  L [L [A "paths"; paths]; L [A "crates"; cr]; L [A "judge"; judge]]

let c14 args =
  match args with
  | [A lang; cfg; L [nf; nc; nh]; files; obs] ->
    let l = lang_of_name lang in
    let entries = to_list to_entry files in
    let mapped = Model.ignored_reference_types l (cfg_map cfg "type_mappings") in
    let obs = to_opt (to_list (function
      | L [c; pairs] -> (to_str c, to_list (function L [m; n] -> (to_str m, to_str n) | _ -> raise (Bad "pair")) pairs)
      | _ -> raise (Bad "obs"))) obs in
    let spec = spec_part l mapped entries obs in
    let ho_file = import_order (to_int nf) and ho_crate = import_order (to_int nc) and hc = crate_order (to_int nh) in
    let answer status files extra = L [L [A "status"; status]; L [A "files"; L files]; L [A "extra"; L extra]; L [A "spec"; spec]] in
    (match Model.parse_workspace uc [] mapped ho_file entries with
     | Model.Err e -> answer (L [A "err"; perr_to_sx e]) [] []
     | Model.Panic s -> answer (L [A "panic"; A (coqstring s)]) [] []
     | Model.Ok arrivals ->
       let cs = Model.multi_crates ho_crate arrivals in
       (match Model.first_parse_error cs with
        | Some e -> answer (L [A "parse_errors"; perr_to_sx e]) [] []
        | None ->
          let plan = Model.multi_plan l hc cs in
          let (st0, gen) = generator lang cfg in
          let (generated, fin) = Model.generate_crates gen st0 plan in
          (* the writer of Model/Writer.v on an empty output folder "o" *)
          let folder = [n_of_int 111] in
          let codable = if lang = "swift" then swift_codable cfg fin else None in
          let (fs, _) = Model.run_full [] (n_of_int 1) (Model.multi_outputs folder generated codable) in
          let strip p = match p with _ :: _ :: name -> name | _ -> p in
          let plan_of name = List.find_opt (fun p -> p.Model.op_file = name) (List.rev plan) in
          let files = List.map (fun (path, (bytes, _)) ->
            let name = strip path in
            match plan_of name with
            | Some p -> L [str_to_atom name; str_to_atom p.Model.op_crate; of_pairs p.Model.op_imports; str_to_atom bytes; of_decls p.Model.op_data]
            | None -> L [str_to_atom name; A "s"; L []; str_to_atom bytes; L []]) fs in
          let status = match fin with
            | Model.Ok _ -> A "ok"
            | Model.Err e -> L [A "err"; perr_to_sx e]
            | Model.Panic s -> L [A "panic"; A (coqstring s)] in
          answer status files []))
  | _ -> raise (Bad "c14 args")

(* (c14_crate PATH) -> (model (option crate)) (spec (option crate)) ; (c14_file LANG CRATE) -> model and spec file name *)
let c14_crate args =
  match args with
  | [path] -> let p = to_list to_str path in L [of_opt str_to_atom (Model.find_crate_name p); of_opt str_to_atom (Model.crate_of p)]
  | _ -> raise (Bad "c14_crate args")
let c14_file args =
  match args with
  | [A lang; c] -> let l = lang_of_name lang in
    L [str_to_atom (Model.output_file_name l (to_str c)); str_to_atom (Model.file_name14 l (to_str c)); of_bool (Model.conventional_crate (to_str c))]
  | _ -> raise (Bad "c14_file args")

let () = register "c14" c14; register "c14_crate" c14_crate; register "c14_file" c14_file
