(* C10, grammar half for Kotlin: the extracted recogniser of Spec/C10KtGrammar.v on text handed in by checks/c10.py.
   No logic of its own. *)
open Drv_base

(* (c10_kt_parse TEXT) -> (some nN) = package header, imports and N top-level declarations of the Kotlin grammar | none *)
let c10_kt_parse args =
  match args with
  | [text] -> of_opt (fun n -> A ("n" ^ string_of_int (int_of_nat n))) (Model.c10_kt_recognise (to_str text))
  | _ -> raise (Bad "c10_kt_parse args")

let () = register "c10_kt_parse" c10_kt_parse
