open Drv_base
open Drv_ast

(* (c13 <attrs> <target list>) -> model decision, documented rule, domain *)
let c13 args =
  match args with
  | [attrs; t] ->
    let attrs = to_attrs attrs and t = to_list to_str t in
    L [ L [A "model"; of_opt of_bool (Model.accept_target_os attrs t)];
        L [A "rule"; of_bool (Model.os_rule attrs t)];
        L [A "dom"; of_bool (Model.cfg_parsable attrs)] ]
  | _ -> raise (Bad "c13 args")

let () = register "c13" c13
