(* S-expression decoders for the syn-level AST of Model/Syntax.v *)
open Drv_base

let to_path x = to_list to_str x

let to_value = function
  | L [A "str"; s] -> Model.VStr (to_str s)
  | A "other" -> Model.VOther
  | _ -> raise (Bad "value")

let rec to_meta (x : sx) : Model.meta =
  match x with
  | L [A "path"; p] -> Model.MPath (to_path p)
  | L [A "list"; p; args; dargs] ->
    Model.MList (to_path p, to_opt (to_list to_meta) args,
                 to_opt (to_list (function L [i; v] -> (to_str i, to_opt to_str v) | _ -> raise (Bad "darg"))) dargs)
  | L [A "nv"; p; v] -> Model.MNV (to_path p, to_value v)
  | _ -> raise (Bad "meta")

let to_attr = function
  | L [A "attr"; inner; m] -> { Model.a_inner = to_bool inner; Model.a_meta = to_meta m }
  | _ -> raise (Bad "attr")
let to_attrs x = to_list to_attr x
