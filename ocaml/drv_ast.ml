(* S-expression decoders for the syn-level AST of Model/Syntax.v *)
open Drv_base

let to_path x = to_list to_str x

let to_value = function
  | L [A "str"; s] -> Model.VStr (to_str s)
  | A "other" -> Model.VOther
  | _ -> raise (Bad "value")

let rec to_meta (x : sx) : Model.meta =
  match x with
  | L [A "path"; p] -> Model.MPath (to_path p)
  | L [A "list"; p; args; dargs] ->
    Model.MList (to_path p, to_opt (to_list to_meta) args,
                 to_opt (to_list (function L [i; v] -> (to_str i, to_opt to_str v) | _ -> raise (Bad "darg"))) dargs)
  | L [A "nv"; p; v] -> Model.MNV (to_path p, to_value v)
  | _ -> raise (Bad "meta")

let to_attr = function
  | L [A "attr"; inner; m] -> { Model.a_inner = to_bool inner; Model.a_meta = to_meta m }
  | _ -> raise (Bad "attr")
let to_attrs x = to_list to_attr x

let to_alen = function
  | L [A "alit"; n] -> Model.ALit (to_opt to_n n)
  | A "aother" -> Model.AOther
  | _ -> raise (Bad "alen")

let rec to_ty (x : sx) : Model.ty =
  match x with
  | L [A "tpath"; quals; last; args] -> Model.TPath (to_list to_str quals, to_str last, to_list (to_opt to_ty) args)
  | L [A "tref"; t] -> Model.TRef (to_ty t)
  | L [A "ttuple"; l] -> Model.TTuple (to_list to_ty l)
  | L [A "tarray"; t; len] -> Model.TArray (to_ty t, to_alen len)
  | L [A "tslice"; t] -> Model.TSlice (to_ty t)
  | A "tother" -> Model.TOther
  | _ -> raise (Bad "ty")

let to_field = function
  | L [A "field"; attrs; ident; t] -> { Model.f_attrs = to_attrs attrs; Model.f_ident = to_opt to_str ident; Model.f_ty = to_ty t }
  | _ -> raise (Bad "field")

let to_fields = function
  | L [A "named"; l] -> Model.FNamed (to_list to_field l)
  | L [A "unnamed"; l] -> Model.FUnnamed (to_list to_field l)
  | A "unit" -> Model.FUnit
  | _ -> raise (Bad "fields")

let to_variant = function
  | L [A "variant"; attrs; ident; fs] -> { Model.v_attrs = to_attrs attrs; Model.v_ident = to_str ident; Model.v_fields = to_fields fs }
  | _ -> raise (Bad "variant")

let to_gparam = function
  | L [A "gptype"; i] -> Model.GPType (to_str i)
  | A "gpother" -> Model.GPOther
  | _ -> raise (Bad "gparam")

let to_clit = function
  | L [A "cint"; v] -> Model.CInt (to_opt to_z v)
  | A "cnotint" -> Model.CNotInt
  | _ -> raise (Bad "clit")

let rec to_cexpr = function
  | L [A "celit"; l] -> Model.CELit (to_clit l)
  | L [A "ceparen"; e] -> Model.CEParen (to_cexpr e)
  | L [A "ceneg"; e] -> Model.CENeg (to_cexpr e)
  | A "ceother" -> Model.CEOther
  | _ -> raise (Bad "cexpr")

let rec to_use_tree = function
  | L [A "upath"; i; t] -> Model.UPath (to_str i, to_use_tree t)
  | L [A "uname"; i] -> Model.UName (to_str i)
  | L [A "urename"; i; a] -> Model.URename (to_str i, to_str a)
  | A "uglob" -> Model.UGlob
  | L [A "ugroup"; l] -> Model.UGroup (to_list to_use_tree l)
  | _ -> raise (Bad "use_tree")

let rec to_item (x : sx) : Model.item =
  match x with
  | L [A "struct"; attrs; ident; gs; fs] -> Model.IStruct (to_attrs attrs, to_str ident, to_list to_gparam gs, to_fields fs)
  | L [A "enum"; attrs; ident; gs; vs] -> Model.IEnum (to_attrs attrs, to_str ident, to_list to_gparam gs, to_list to_variant vs)
  | L [A "type"; attrs; ident; gs; t] -> Model.IType (to_attrs attrs, to_str ident, to_list to_gparam gs, to_ty t)
  | L [A "const"; attrs; ident; t; e] -> Model.IConst (to_attrs attrs, to_str ident, to_ty t, to_cexpr e)
  | L [A "use"; t] -> Model.IUse (to_use_tree t)
  | L [A "nest"; l] -> Model.INest (to_list to_item l)
  | _ -> raise (Bad "item")

let to_file = function
  | L [A "file"; attrs; items; paths; marker] ->
    { Model.fl_attrs = to_attrs attrs; Model.fl_items = to_list to_item items; Model.fl_paths = to_list to_path paths; Model.fl_marker = to_bool marker }
  | _ -> raise (Bad "file")

(* association list of serialized_as strings -> parsed type (None = syn error) *)
let to_tstr (x : sx) : Model.str -> Model.ty option =
  let tbl = to_list (function L [k; v] -> (to_str k, to_opt to_ty v) | _ -> raise (Bad "tstr")) x in
  fun s -> (try List.assoc s tbl with Not_found -> None)
