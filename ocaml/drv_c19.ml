(* C19: S-expression codecs for the DeriveInput-level AST of Model/Annotation.v (the form printed by
   harness/libdrive/src/derive.rs) and the commands that run the macro model / the declarative
   erasure / the observation functions on it.
     (derive <attrs> <vis> <ident> <generics> <where> <data>)   | (other <attrs> <tokens>)
     data    = (struct <fields>) | (enum (<variant>..)) | (union (<dfield>..))
     fields  = (named (<dfield>..)) | (unnamed (<dfield>..)) | unit
     dfield  = (dfield <attrs> <vis> <ident option> <ty>)
     variant = (dvariant <attrs> <ident> <fields> <discriminant option>)
   attrs as in drv_ast.ml. *)
open Drv_base
open Drv_ast

let c19_of_path p = of_list str_to_atom p
let c19_of_value = function Model.VStr s -> L [A "str"; str_to_atom s] | Model.VOther -> A "other"
let rec c19_of_meta (m : Model.meta) : sx =
  match m with
  | Model.MPath p -> L [A "path"; c19_of_path p]
  | Model.MList (p, args, dargs) ->
    L [A "list"; c19_of_path p; of_opt (of_list c19_of_meta) args;
       of_opt (of_list (fun (i, v) -> L [str_to_atom i; of_opt str_to_atom v])) dargs]
  | Model.MNV (p, v) -> L [A "nv"; c19_of_path p; c19_of_value v]
let c19_of_attr (a : Model.attr) : sx = L [A "attr"; of_bool a.Model.a_inner; c19_of_meta a.Model.a_meta]
let c19_of_attrs l = of_list c19_of_attr l

let c19_to_dfield = function
  | L [A "dfield"; attrs; vis; ident; t] ->
    { Model.df_attrs = to_attrs attrs; Model.df_vis = to_str vis; Model.df_ident = to_opt to_str ident; Model.df_ty = to_str t }
  | _ -> raise (Bad "dfield")
let c19_of_dfield (f : Model.dfield) : sx =
  L [A "dfield"; c19_of_attrs f.Model.df_attrs; str_to_atom f.Model.df_vis; of_opt str_to_atom f.Model.df_ident; str_to_atom f.Model.df_ty]

let c19_to_dfields = function
  | L [A "named"; l] -> Model.DNamed (to_list c19_to_dfield l)
  | L [A "unnamed"; l] -> Model.DUnnamed (to_list c19_to_dfield l)
  | A "unit" -> Model.DUnit
  | _ -> raise (Bad "dfields")
let c19_of_dfields = function
  | Model.DNamed l -> L [A "named"; of_list c19_of_dfield l]
  | Model.DUnnamed l -> L [A "unnamed"; of_list c19_of_dfield l]
  | Model.DUnit -> A "unit"

let c19_to_dvariant = function
  | L [A "dvariant"; attrs; ident; fs; discr] ->
    { Model.dv_attrs = to_attrs attrs; Model.dv_ident = to_str ident; Model.dv_fields = c19_to_dfields fs; Model.dv_discr = to_opt to_str discr }
  | _ -> raise (Bad "dvariant")
let c19_of_dvariant (v : Model.dvariant) : sx =
  L [A "dvariant"; c19_of_attrs v.Model.dv_attrs; str_to_atom v.Model.dv_ident; c19_of_dfields v.Model.dv_fields; of_opt str_to_atom v.Model.dv_discr]

let c19_to_ddata = function
  | L [A "struct"; fs] -> Model.DDStruct (c19_to_dfields fs)
  | L [A "enum"; vs] -> Model.DDEnum (to_list c19_to_dvariant vs)
  | L [A "union"; l] -> Model.DDUnion (to_list c19_to_dfield l)
  | _ -> raise (Bad "ddata")
let c19_of_ddata = function
  | Model.DDStruct fs -> L [A "struct"; c19_of_dfields fs]
  | Model.DDEnum vs -> L [A "enum"; of_list c19_of_dvariant vs]
  | Model.DDUnion l -> L [A "union"; of_list c19_of_dfield l]

let c19_to_input = function
  | L [A "derive"; attrs; vis; ident; g; w; d] ->
    Model.Derive { Model.di_attrs = to_attrs attrs; Model.di_vis = to_str vis; Model.di_ident = to_str ident;
                   Model.di_generics = to_str g; Model.di_where = to_str w; Model.di_data = c19_to_ddata d }
  | L [A "other"; attrs; toks] -> Model.Other (to_attrs attrs, to_str toks)
  | _ -> raise (Bad "macro_input")
let c19_of_input = function
  | Model.Derive d ->
    L [A "derive"; c19_of_attrs d.Model.di_attrs; str_to_atom d.Model.di_vis; str_to_atom d.Model.di_ident;
       str_to_atom d.Model.di_generics; str_to_atom d.Model.di_where; c19_of_ddata d.Model.di_data]
  | Model.Other (a, t) -> L [A "other"; c19_of_attrs a; str_to_atom t]

let c19_of_nat n = A ("n" ^ string_of_int (int_of_nat n))
let c19_of_mpos = function
  | Model.MpField id -> L [A "field"; of_opt str_to_atom id]
  | Model.MpVariant id -> L [A "variant"; str_to_atom id]
  | Model.MpVField (v, id) -> L [A "vfield"; str_to_atom v; of_opt str_to_atom id]

let c19_obs (i : Model.macro_input) : sx =
  L [ L [A "members"; of_list c19_of_mpos (Model.obs_members i)];
      L [A "other_attrs"; of_list c19_of_attrs (Model.obs_other_attrs i)];
      L [A "ts_count"; c19_of_nat (Model.obs_ts_count i)];
      L [A "item_attrs"; c19_of_attrs (Model.obs_item_attrs i)];
      L [A "skeleton"; c19_of_input (Model.c19_skeleton i)] ]

(* (c19_macro <input>)  one application of the macro; (c19_erase <input>) the declarative erasure *)
let () = register "c19_macro" (function [i] -> c19_of_input (Model.typeshare_macro (c19_to_input i)) | _ -> raise (Bad "c19_macro args"))
let () = register "c19_erase" (function [i] -> c19_of_input (Model.erase (c19_to_input i)) | _ -> raise (Bad "c19_erase args"))
(* (c19_obs <input>)  the Spec's observation functions on any item (used on real expansions) *)
let () = register "c19_obs" (function [i] -> c19_obs (c19_to_input i) | _ -> raise (Bad "c19_obs args"))
(* (c19_view <input>)  rustc's built-in attribute processing only (used on the items as written) *)
let () = register "c19_view" (function [i] -> of_opt c19_of_input (Model.rustc_builtin_view (c19_to_input i)) | _ -> raise (Bad "c19_view args"))

(* (c19 <full item as written> <parses>) -> everything the check needs about one annotated item *)
let c19 args =
  match args with
  | [full; parses] ->
    let full = c19_to_input full and parses = to_bool parses in
    let once = Model.typeshare_macro_on parses full in
    let expanded = Model.rustc_expand full in
    let view x = of_opt c19_of_input (Model.rustc_builtin_view x) in
    let obs_view x = match Model.rustc_builtin_view x with None -> A "none" | Some v -> L [A "some"; c19_obs v] in
    L [ L [A "dom"; of_bool (Model.dom_C19 full)];
        L [A "known"; of_opt (fun s -> A (coqstring s)) (Model.known_C19 parses full)];
        L [A "has_invocation"; of_bool (Model.has_invocation full)];
        L [A "ts_count"; c19_of_nat (Model.obs_ts_count full)];
        (* model: rustc's loop over the macro model, then the built-ins consumed *)
        L [A "model"; view expanded];
        (* spec: the stripped twin (declarative erasure + invocations dropped), built-ins consumed *)
        L [A "spec"; view (Model.stripped_twin full)];
        (* observations of the item as written, built-ins consumed: what must be preserved *)
        L [A "obs_full"; obs_view full];
        L [A "obs_model"; obs_view expanded];
        L [A "obs_spec"; obs_view (Model.stripped_twin full)];
        (* macro attributes left at member positions after ONE application (parse failure: all of them) *)
        L [A "left_once"; c19_of_nat (Model.rustc_macro_attrs_at_members once)];
        L [A "left_full"; c19_of_nat (Model.rustc_macro_attrs_at_members full)];
        L [A "left_expanded"; c19_of_nat (Model.rustc_macro_attrs_at_members expanded)] ]
  | _ -> raise (Bad "c19 args")

let () = register "c19" c19
