(* ---- Go ---- *)
open Drv_base
open Drv_gen

let go_config cfg =
  { Model.go_package = cfg_str cfg "package"; Model.go_type_mappings = cfg_map cfg "type_mappings";
    Model.go_uppercase_acronyms = cfg_strs cfg "uppercase_acronyms";
    Model.go_no_version_header = cfg_bool cfg "no_version_header" true;
    Model.go_no_pointer_slice = cfg_bool cfg "no_pointer_slice" false;
    Model.go_version = cfg_str cfg "version" }

let () = register_backend "go" (fun cfg pd -> Model.go_generate uc (go_config cfg) pd)
let () = register_decls "go" (fun cfg pd -> Model.go_file_decls uc (go_config cfg) pd)
