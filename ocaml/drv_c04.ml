(* C04 commands (no logic here: decode, call the extracted Spec/C04Spec.v + Spec/C04Readers.v, encode)
   (c04_rows_ir LANG CFG ITEMS RECONCILE)      rows the readers see in the MODEL's declarations
   (c04_rows_src LANG CFG FILE TSTRS TARGET_OS)  the same from source
   (c04_cells FILE)                            what the SOURCE says: ((ident depth default) ...)
   (c04_judge LANG POS nDEPTH DEFAULT REF TMARK IMARK NULLU BASE [(go NPS IRTYPE OVERRIDE)])  -> (dom known good) *)
open Drv_base
open Drv_ast
open Drv_gen

let c04_pos_of = function
  | A "field" -> Model.C04Field | A "variant_field" -> Model.C04VariantField
  | A "payload" -> Model.C04Payload | A "alias" -> Model.C04Alias
  | _ -> raise (Bad "c04 pos")
let c04_of_pos = function
  | Model.C04Field -> A "field" | Model.C04VariantField -> A "variant_field"
  | Model.C04Payload -> A "payload" | Model.C04Alias -> A "alias"

let c04_lang_of = function
  | "typescript" -> Model.TypeScript | "kotlin" -> Model.Kotlin | "swift" -> Model.Swift
  | "scala" -> Model.Scala | "go" -> Model.Go | "python" -> Model.Python
  | l -> raise (Bad ("c04 lang " ^ l))

let c04_of_row (r : Model.c04_row) : sx =
  let s = r.Model.c04r_seen in
  L [ str_to_atom r.Model.c04r_decl; str_to_atom r.Model.c04r_member; c04_of_pos r.Model.c04r_pos;
      of_bool s.Model.c04s_type_mark; of_bool s.Model.c04s_init_mark; of_bool s.Model.c04s_null_union;
      str_to_atom s.Model.c04s_base; str_to_atom r.Model.c04r_raw ]

let c04_rows lang cfg (pd : Model.parsed) : Model.c04_row list Model.outcome =
  match lang with
  | "typescript" ->
    Model.ts_c04_file uc { Model.ts_type_mappings = cfg_map cfg "type_mappings"; Model.ts_no_version_header = cfg_bool cfg "no_version_header" true;
                           Model.ts_version = cfg_str cfg "version" } pd
  | "kotlin" ->
    Model.kt_c04_file uc { Model.kt_package = cfg_str cfg "package"; Model.kt_module_name = cfg_str cfg "module_name";
                           Model.kt_prefix = cfg_str cfg "prefix"; Model.kt_type_mappings = cfg_map cfg "type_mappings";
                           Model.kt_no_version_header = cfg_bool cfg "no_version_header" true; Model.kt_version = cfg_str cfg "version" } pd
  | "swift" -> Model.sw_c04_file uc (Drv_lang_swift.sw_config_of cfg) pd
  | "scala" ->
    Model.sc_c04_file uc { Model.sc_package = cfg_str cfg "package"; Model.sc_module_name = cfg_str cfg "module_name";
                           Model.sc_type_mappings = cfg_map cfg "type_mappings";
                           Model.sc_no_version_header = cfg_bool cfg "no_version_header" true; Model.sc_version = cfg_str cfg "version" } pd
  | "go" -> Model.go_c04_file uc (Drv_lang_go.go_config cfg) pd
  | "python" ->
    Model.py_c04_file uc { Model.py_type_mappings = cfg_map cfg "type_mappings"; Model.py_no_version_header = cfg_bool cfg "no_version_header" true;
                           Model.py_version = cfg_str cfg "version" } pd
  | l -> raise (Bad ("c04 lang " ^ l))

let c04_rows_ir args =
  match args with
  | [A lang; cfg; items; recon] ->
    let pd = to_parsed_items items in
    let pd = if to_bool recon then reconcile_single pd else pd in
    outcome_to_sx (of_list c04_of_row) (c04_rows lang cfg pd)
  | _ -> raise (Bad "c04_rows_ir args")

let c04_rows_src args =
  match args with
  | [A lang; cfg; file; tstrs; t] ->
    (match Model.parse_file uc (to_tstr tstrs) (to_list to_str t) (to_file file) with
     | Model.Ok None -> L [A "none"]
     | Model.Ok (Some pd) ->
       if pd.Model.p_errors <> [] then L [A "parse_errors"; of_list perr_to_sx pd.Model.p_errors]
       else outcome_to_sx (of_list c04_of_row) (c04_rows lang cfg (reconcile_single pd))
     | Model.Err e -> L [A "parse_err"; perr_to_sx e]
     | Model.Panic s -> L [A "panic"; A (coqstring s)])
  | _ -> raise (Bad "c04_rows_src args")

let c04_cells args =
  match args with
  | [file] ->
    of_list (fun ((i, d), b) -> L [str_to_atom i; A ("n" ^ string_of_int (int_of_nat d)); of_bool b])
      (Model.c04_file_cells (to_file file))
  | _ -> raise (Bad "c04_cells args")

(* optional last argument, Go only: (go NO_POINTER_SLICE IRTYPE OVERRIDE) - the verdict is then good_C04_go with
   bare = c04_go_bare NO_POINTER_SLICE IRTYPE, or good_C04_go_override when the field carries a Go type override *)
let c04_judge args =
  let judge lang pos depth dflt rf tm im nu base go =
    let l = c04_lang_of lang in
    let e = { Model.c04e_pos = c04_pos_of pos; Model.c04e_depth = nat_of_int (to_int depth); Model.c04e_default = to_bool dflt;
              Model.c04e_ref = to_str rf } in
    let s = { Model.c04s_type_mark = to_bool tm; Model.c04s_init_mark = to_bool im; Model.c04s_null_union = to_bool nu;
              Model.c04s_base = to_str base } in
    let good =
      match go with
      | None -> Model.good_C04 l e s
      | Some (nps, ty, ov) ->
        if ov then Model.good_C04_go_override e s else Model.good_C04_go (Model.c04_go_bare nps ty) e s in
    L [ of_bool (Model.dom_C04 l e); of_opt (fun c -> A (coqstring c)) (Model.known_C04 l e); of_bool good ] in
  match args with
  | [A lang; pos; depth; dflt; rf; tm; im; nu; base] -> judge lang pos depth dflt rf tm im nu base None
  | [A "go"; pos; depth; dflt; rf; tm; im; nu; base; L [A "go"; nps; ty; ov]] ->
    judge "go" pos depth dflt rf tm im nu base (Some (to_bool nps, Drv_ir.to_rtype ty, to_bool ov))
  | _ -> raise (Bad "c04_judge args")

let () =
  register "c04_rows_ir" c04_rows_ir; register "c04_rows_src" c04_rows_src;
  register "c04_cells" c04_cells; register "c04_judge" c04_judge
