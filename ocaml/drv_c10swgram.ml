(* C10, grammar half for Swift: the extracted recogniser of Spec/C10SwGrammar.v (tokenizer + recursive-descent parser of the
   Swift declaration subset) on text handed in by checks/c10.py. No logic of its own. *)
open Drv_base

(* (c10_sw_parse TEXT) -> (some nN) = a Swift file with N top-level declarations | none *)
let c10_sw_parse args =
  match args with
  | [text] -> of_opt (fun n -> A ("n" ^ string_of_int (int_of_nat n))) (Model.c10_sw_recognise (to_str text))
  | _ -> raise (Bad "c10_sw_parse args")

let () = register "c10_sw_parse" c10_sw_parse
