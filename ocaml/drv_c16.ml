open Drv_base

(* ---- C16 ---- *)
let to_pos = function A "field" -> Model.PField | A "variant" -> Model.PVariant | _ -> raise (Bad "position")

let c16 args =
  match args with
  | [p; rule; s] ->
    let p = to_pos p and rule = to_opt to_str rule and s = to_str s in
    let o = Model.rename_all_to_case uc s rule in
    L [ L [A "model"; outcome_to_sx str_to_atom o];
        L [A "serde"; of_opt str_to_atom (Model.serde_name uc p rule s)];
        L [A "known"; of_opt (fun c -> A (coqstring c)) (Model.known_C16 p s)];
        L [A "good_model"; of_bool (Model.good_C16 uc p rule s o)] ]
  | _ -> raise (Bad "c16 args")

let c16_good args =
  match args with
  | [p; rule; s; o] ->
    let p = to_pos p and rule = to_opt to_str rule and s = to_str s in
    of_bool (Model.good_C16 uc p rule s (to_outcome to_str o))
  | _ -> raise (Bad "c16_good args")

(* the six RenameExt methods called directly (any string, not only identifiers) *)
let c16_direct args =
  match args with
  | [A m; s] ->
    let s = to_str s in
    let o = match m with
      | "pascal" -> Model.Ok (Model.to_pascal_case s)
      | "camel" -> Model.to_camel_case s
      | "snake" -> Model.Ok (Model.to_snake_case uc s)
      | "screaming_snake" -> Model.Ok (Model.to_screaming_snake_case uc s)
      | "kebab" -> Model.Ok (Model.to_kebab_case uc s)
      | "screaming_kebab" -> Model.Ok (Model.to_screaming_kebab_case uc s)
      | _ -> raise (Bad "method") in
    outcome_to_sx str_to_atom o
  | _ -> raise (Bad "c16_direct args")

let uc_table () =
  of_list (fun (c, ((((u, l), lo), up), w)) ->
    L [n_to_atom c; of_bool u; of_bool l; str_to_atom lo; str_to_atom up; of_bool w]) Model.uc_table

let uc_eval args =
  match args with
  | [c] -> let c = to_n c in
    L [of_bool (uc.Model.u_is_upper c); of_bool (uc.Model.u_is_lower c); str_to_atom (uc.Model.u_lower c);
       str_to_atom (uc.Model.u_upper c); of_bool (uc.Model.u_is_ws c)]
  | _ -> raise (Bad "uc_eval args")

let () =
  register "uc_eval" uc_eval;
  register "c16" c16;
  register "c16_good" c16_good;
  register "c16_direct" c16_direct;
  register "uc_table" (fun _ -> uc_table ())
