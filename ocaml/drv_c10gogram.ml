(* C10, grammar half for Go: the extracted recogniser of Spec/C10GoGrammar.v (tokenizer with semicolon insertion +
   recursive-descent parser of the Go declaration subset) on text handed in by checks/c10.py. No logic of its own. *)
open Drv_base

(* (c10_go_parse TEXT) -> (some nN) = a Go source file with N top-level declarations | none *)
let c10_go_parse args =
  match args with
  | [text] -> of_opt (fun n -> A ("n" ^ string_of_int (int_of_nat n))) (Model.c10_go_recognise (to_str text))
  | _ -> raise (Bad "c10_go_parse args")

(* (c10_go_cls ITEMS) -> (CLASS ...): the finding class of the Go declaration grammar, on the IR the REAL parser produced *)
let c10_go_cls args =
  match args with
  | [items] -> of_list (fun c -> A (coqstring c)) (Model.known_C10_go_grammar (Drv_gen.to_parsed_items items))
  | _ -> raise (Bad "c10_go_cls args")

let () = register "c10_go_parse" c10_go_parse; register "c10_go_cls" c10_go_cls
