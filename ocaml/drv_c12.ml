(* C12: (c12 LANG CFG FILE TSTRS) -> ((obs <outcome of (uses defs)>) (dom b) (known <opt string>))
        (c12_good (USES) (DEFS))   -> bool, the extracted verdict predicate on any observation *)
open Drv_base
open Drv_ast
open Drv_gen

let sw_cfg cfg =
  { Model.sw_prefix = cfg_str cfg "prefix"; Model.sw_type_mappings = cfg_map cfg "type_mappings";
    Model.sw_default_decorators = cfg_strs cfg "default_decorators";
    Model.sw_default_generic_constraints = cfg_strs cfg "default_generic_constraints";
    Model.sw_codablevoid_constraints = cfg_strs cfg "codablevoid_constraints";
    Model.sw_no_version_header = cfg_bool cfg "no_version_header" true; Model.sw_version = cfg_str cfg "version" }
let sc_cfg cfg =
  { Model.sc_package = cfg_str cfg "package"; Model.sc_module_name = cfg_str cfg "module_name";
    Model.sc_type_mappings = cfg_map cfg "type_mappings";
    Model.sc_no_version_header = cfg_bool cfg "no_version_header" true; Model.sc_version = cfg_str cfg "version" }
let go_cfg cfg =
  { Model.go_package = cfg_str cfg "package"; Model.go_type_mappings = cfg_map cfg "type_mappings";
    Model.go_uppercase_acronyms = cfg_strs cfg "uppercase_acronyms";
    Model.go_no_version_header = cfg_bool cfg "no_version_header" true;
    Model.go_no_pointer_slice = cfg_bool cfg "no_pointer_slice" false; Model.go_version = cfg_str cfg "version" }
let kt_cfg cfg =
  { Model.kt_package = cfg_str cfg "package"; Model.kt_module_name = cfg_str cfg "module_name";
    Model.kt_prefix = cfg_str cfg "prefix"; Model.kt_type_mappings = cfg_map cfg "type_mappings";
    Model.kt_no_version_header = cfg_bool cfg "no_version_header" true; Model.kt_version = cfg_str cfg "version" }
let py_cfg cfg =
  { Model.py_type_mappings = cfg_map cfg "type_mappings"; Model.py_no_version_header = cfg_bool cfg "no_version_header" true;
    Model.py_version = cfg_str cfg "version" }

let of_obs (o : (Model.str list * Model.str list) Model.outcome) : sx =
  outcome_to_sx (fun (u, d) -> L [of_list str_to_atom u; of_list str_to_atom d]) o
let of_known (k : Model.string option) : sx = of_opt (fun s -> A (coqstring s)) k

let c12_on lang cfg (pd : Model.parsed) : sx =
  let items = Model.items_of pd in
  let obs, dom, known =
    match lang with
    | "swift" -> let c = sw_cfg cfg in (Model.c12_sw_observe uc c pd, Model.c12_sw_dom c items, None)
    | "scala" -> let c = sc_cfg cfg in (Model.c12_sc_observe uc c pd, Model.c12_sc_dom pd, Model.c12_sc_known c pd)
    | "go" -> let c = go_cfg cfg in (Model.c12_go_observe uc c pd, Model.c12_go_dom c items || Model.c12_go_dom_acr c items, None)
    | "kotlin" -> let c = kt_cfg cfg in (Model.c12_kt_observe uc c pd, true, Model.c12_kt_known c pd)
    | "python" -> let c = py_cfg cfg in (Model.c12_py_observe uc c pd, Model.c12_py_dom c items, Model.c12_py_known c pd)
    | _ -> raise (Bad ("c12: no reader for " ^ lang)) in
  L [L [A "obs"; of_obs obs]; L [A "dom"; of_bool dom]; L [A "known"; of_known known]]

let c12 args =
  match args with
  | [A lang; cfg; file; tstrs] ->
    (match Model.parse_file uc (to_tstr tstrs) [] (to_file file) with
     | Model.Ok None -> L [A "none"]
     | Model.Ok (Some pd) ->
       if pd.Model.p_errors <> [] then L [A "parse_errors"; of_list perr_to_sx pd.Model.p_errors]
       else c12_on lang cfg (reconcile_single pd)
     | Model.Err e -> L [A "parse_err"; perr_to_sx e]
     | Model.Panic s -> L [A "panic"; A (coqstring s)])
  | _ -> raise (Bad "c12 args")

let c12_good args =
  match args with
  | [uses; defs] -> of_bool (Model.c12_good (to_list to_str uses) (to_list to_str defs))
  | _ -> raise (Bad "c12_good args")

let () = register "c12" c12; register "c12_good" c12_good
