open Drv_base
open Drv_ir

let to_nat x = nat_of_int (to_int x)
let of_nat n = A ("n" ^ string_of_int (int_of_nat n))

let item_key (it : Model.ritem) : sx =
  let k = match it with Model.ItStruct _ -> "struct" | Model.ItEnum _ -> "enum" | Model.ItAlias _ -> "alias" | Model.ItConst _ -> "const" in
  L [A k; str_to_atom (Model.item_id it).Model.original]

let c11_toposort args =
  match args with
  | [g] -> outcome_to_sx (of_list of_nat) (Model.toposort_impl (to_list (to_list to_nat) g))
  | _ -> raise (Bad "c11_toposort")

let c11_sbi args =
  match args with
  | [data; ind] -> outcome_to_sx (of_list of_nat) (Model.sort_by_indices (to_list to_nat data) (to_list to_nat ind))
  | _ -> raise (Bad "c11_sbi")

let c11_topsort args =
  match args with
  | [items] ->
    let things = to_list to_ritem items in
    let o = Model.topsort things in
    L [ L [A "model"; outcome_to_sx (of_list item_key) o];
        L [A "known"; of_opt (fun c -> A (coqstring c)) (Model.known_C11 things)];
        L [A "acyclic"; of_bool (Model.acyclic things)];
        L [A "good_model"; (match o with Model.Ok out -> of_bool (Model.good_C11 things out) | _ -> A "false")] ]
  | _ -> raise (Bad "c11_topsort")

let c11_good args =
  match args with
  | [items; order] ->
    let things = to_list to_ritem items in
    let arr = Array.of_list things in
    let out = List.map (fun i -> arr.(to_int i)) (match order with L l -> l | _ -> raise (Bad "order")) in
    L [ L [A "perm"; of_bool (Model.perm_ok things out)]; L [A "topo"; of_bool (Model.topo_ok out)];
        L [A "good"; of_bool (Model.good_C11 things out)] ]
  | _ -> raise (Bad "c11_good")

let () =
  register "c11_toposort" c11_toposort; register "c11_sbi" c11_sbi;
  register "c11_topsort" c11_topsort; register "c11_good" c11_good
