(* Hand-written driver for the extracted model (build/ocaml/model.ml).
   Protocol: one S-expression per input line, one S-expression per output line.
   Atoms:  s<cp>.<cp>...  a string as decimal code points ("s" alone = empty string)
           n<digits>      a natural number          z[-]<digits>  an integer
           anything else  a symbol
   This file contains no logic of its own beyond (de)serialisation and dispatch. *)

type sx = A of string | L of sx list

exception Bad of string

let parse_line (s : string) : sx =
  let n = String.length s in
  let pos = ref 0 in
  let rec skip () = if !pos < n && (s.[!pos] = ' ' || s.[!pos] = '\t' || s.[!pos] = '\r' || s.[!pos] = '\n') then (incr pos; skip ()) in
  let rec item () =
    skip ();
    if !pos >= n then raise (Bad "eof")
    else if s.[!pos] = '(' then begin
      incr pos;
      let rec items acc =
        skip ();
        if !pos >= n then raise (Bad "unclosed")
        else if s.[!pos] = ')' then (incr pos; L (List.rev acc))
        else items (item () :: acc) in
      items []
    end else begin
      let st = !pos in
      while !pos < n && not (s.[!pos] = ' ' || s.[!pos] = '(' || s.[!pos] = ')' || s.[!pos] = '\t' || s.[!pos] = '\n' || s.[!pos] = '\r') do incr pos done;
      A (String.sub s st (!pos - st))
    end in
  item ()

let rec print_sx (b : Buffer.t) (x : sx) : unit =
  match x with
  | A a -> Buffer.add_string b a
  | L l -> Buffer.add_char b '(';
    List.iteri (fun i y -> if i > 0 then Buffer.add_char b ' '; print_sx b y) l;
    Buffer.add_char b ')'

(* ---- numbers ---- *)
let rec pos_of_int (i : int) : Model.positive =
  if i <= 1 then Model.XH
  else if i land 1 = 0 then Model.XO (pos_of_int (i lsr 1))
  else Model.XI (pos_of_int (i lsr 1))
let n_of_int (i : int) : Model.n = if i <= 0 then Model.N0 else Model.Npos (pos_of_int i)
let rec int_of_pos (p : Model.positive) : int =
  match p with Model.XH -> 1 | Model.XO q -> 2 * int_of_pos q | Model.XI q -> 2 * int_of_pos q + 1
let int_of_n (x : Model.n) : int = match x with Model.N0 -> 0 | Model.Npos p -> int_of_pos p
let rec nat_of_int (i : int) : Model.nat = if i <= 0 then Model.O else Model.S (nat_of_int (i - 1))
let rec int_of_nat (x : Model.nat) : int = match x with Model.O -> 0 | Model.S k -> 1 + int_of_nat k

let ten = n_of_int 10
let n_of_dec (d : string) : Model.n =
  let acc = ref Model.N0 in
  String.iter (fun c ->
    if c < '0' || c > '9' then raise (Bad ("digit " ^ d));
    acc := Model.N.add (Model.N.mul !acc ten) (n_of_int (Char.code c - 48))) d;
  !acc
let z_of_dec (d : string) : Model.z =
  if String.length d > 0 && d.[0] = '-' then Model.Z.opp (Model.Z.of_N (n_of_dec (String.sub d 1 (String.length d - 1))))
  else Model.Z.of_N (n_of_dec d)

(* ---- strings ---- *)
let str_to_atom (s : Model.str) : sx =
  A ("s" ^ String.concat "." (List.map (fun c -> string_of_int (int_of_n c)) s))
let atom_to_str (a : string) : Model.str =
  if String.length a = 0 || a.[0] <> 's' then raise (Bad ("string atom expected: " ^ a));
  if String.length a = 1 then []
  else List.map (fun t -> n_of_int (int_of_string t)) (String.split_on_char '.' (String.sub a 1 (String.length a - 1)))
let to_str = function A a -> atom_to_str a | _ -> raise (Bad "string expected")
let to_n = function A a when String.length a > 0 && a.[0] = 'n' -> n_of_dec (String.sub a 1 (String.length a - 1)) | _ -> raise (Bad "n expected")
let to_z = function A a when String.length a > 0 && a.[0] = 'z' -> z_of_dec (String.sub a 1 (String.length a - 1)) | _ -> raise (Bad "z expected")
let to_int = function A a when String.length a > 0 && a.[0] = 'n' -> int_of_string (String.sub a 1 (String.length a - 1)) | _ -> raise (Bad "n expected")
let to_bool = function A "true" -> true | A "false" -> false | _ -> raise (Bad "bool expected")
let to_list f = function L l -> List.map f l | _ -> raise (Bad "list expected")
let to_opt f = function A "none" -> None | L [A "some"; x] -> Some (f x) | _ -> raise (Bad "option expected")

let plain_of_str (s : Model.str) : string =
  let b = Buffer.create 16 in
  List.iter (fun c -> let i = int_of_n c in if i < 128 then Buffer.add_char b (Char.chr i) else Buffer.add_string b (Printf.sprintf "\\u{%x}" i)) s;
  Buffer.contents b
let n_to_atom (x : Model.n) : sx = A ("n" ^ plain_of_str (Model.dec_of_N x))
let z_to_atom (x : Model.z) : sx = A ("z" ^ plain_of_str (Model.dec_of_Z x))

let rec coqstring (s : Model.string) : string =
  match s with
  | Model.EmptyString -> ""
  | Model.String (Model.Ascii (b0, b1, b2, b3, b4, b5, b6, b7), r) ->
    let bit b k = if b then 1 lsl k else 0 in
    String.make 1 (Char.chr (bit b0 0 + bit b1 1 + bit b2 2 + bit b3 3 + bit b4 4 + bit b5 5 + bit b6 6 + bit b7 7)) ^ coqstring r

let of_bool b = A (if b then "true" else "false")
let of_opt f = function None -> A "none" | Some x -> L [A "some"; f x]
let of_list f l = L (List.map f l)

let perr_to_sx (e : Model.perr) : sx =
  match e with
  | Model.ESyn -> A "ESyn"
  | Model.EUnsupportedType ids -> L [A "EUnsupportedType"; of_list str_to_atom ids]
  | Model.EUnexpectedToken -> A "EUnexpectedToken"
  | Model.EParameterizedTuple -> A "EParameterizedTuple"
  | Model.ENumericLiteral -> A "ENumericLiteral"
  | Model.EUnsupportedLanguage s -> L [A "EUnsupportedLanguage"; str_to_atom s]
  | Model.EUnsupportedTypeP s -> L [A "EUnsupportedTypeP"; str_to_atom s]
  | Model.EComplexTupleStruct -> A "EComplexTupleStruct"
  | Model.EMultipleUnnamed -> A "EMultipleUnnamed"
  | Model.ESerdeTagNotAllowed s -> L [A "ESerdeTagNotAllowed"; str_to_atom s]
  | Model.ESerdeContentNotAllowed s -> L [A "ESerdeContentNotAllowed"; str_to_atom s]
  | Model.ESerdeTagRequired s -> L [A "ESerdeTagRequired"; str_to_atom s]
  | Model.ESerdeContentRequired s -> L [A "ESerdeContentRequired"; str_to_atom s]
  | Model.EConstExprInvalid -> A "EConstExprInvalid"
  | Model.EConstTypeInvalid -> A "EConstTypeInvalid"
  | Model.ESerdeFlatten -> A "ESerdeFlatten"
  | Model.EIO -> A "EIO"
  | Model.EGenericsForbiddenInGo s -> L [A "EGenericsForbiddenInGo"; str_to_atom s]
  | Model.EGenericKeyForbiddenInTS s -> L [A "EGenericKeyForbiddenInTS"; str_to_atom s]
  | Model.EUnsupportedSpecialType s -> L [A "EUnsupportedSpecialType"; str_to_atom s]
  | Model.EConstUnsupported s -> L [A "EConstUnsupported"; str_to_atom s]
  | Model.EPackageRequired -> A "EPackageRequired"

let outcome_to_sx (f : 'a -> sx) (o : 'a Model.outcome) : sx =
  match o with
  | Model.Ok a -> L [A "ok"; f a]
  | Model.Err e -> L [A "err"; perr_to_sx e]
  | Model.Panic s -> L [A "panic"; A (coqstring s)]

(* observed outcomes coming from the implementation: errors carry only their constructor *)
let to_outcome (f : sx -> 'a) (x : sx) : 'a Model.outcome =
  match x with
  | L [A "ok"; a] -> Model.Ok (f a)
  | L (A "err" :: _) -> Model.Err Model.ESyn
  | L (A "panic" :: _) -> Model.Panic Model.EmptyString
  | _ -> raise (Bad "outcome expected")

let uc = Model.uc_exec

let handlers : (string, sx list -> sx) Hashtbl.t = Hashtbl.create 64
let register (name : string) (f : sx list -> sx) : unit = Hashtbl.replace handlers name f
