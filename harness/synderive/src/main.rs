//! C19 helper: does `syn::parse::<DeriveInput>` succeed on an item when syn is built with exactly
//! the feature set the typeshare-annotation crate asks for (no "full")?  That is the first thing
//! the `#[typeshare]` macro does (annotation/src/lib.rs:45); on failure it returns the item unchanged.
//! libdrive cannot answer this: it links syn with "full".  checks/c19.py generates this crate's
//! Cargo.toml from the `syn = ..` line of the annotation crate under test, so the answer follows
//! the tree.  Protocol: one item per input line as an `s<cp>.<cp>..` atom (code points), one
//! `true` / `false` per output line.
use std::io::{BufRead, Write};

fn main() {
    let stdin = std::io::stdin();
    let stdout = std::io::stdout();
    let mut out = std::io::BufWriter::new(stdout.lock());
    for line in stdin.lock().lines() {
        let line = line.unwrap();
        let line = line.trim();
        if line.is_empty() {
            continue;
        }
        let src: String = if line == "s" {
            String::new()
        } else {
            line[1..].split('.').map(|t| char::from_u32(t.parse::<u32>().unwrap()).unwrap()).collect()
        };
        let ok = std::panic::catch_unwind(|| syn::parse_str::<syn::DeriveInput>(&src).is_ok()).unwrap_or(false);
        writeln!(out, "{}", ok).unwrap();
    }
    out.flush().unwrap();
}
