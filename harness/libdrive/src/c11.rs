//! C11: the ordering functions through the cfg(typeshare_verif) hooks.
use crate::{guarded, ir};
use serde_json::{json, Value};
use typeshare_core::rust_types::RustItem;
use typeshare_core::verif_hooks;

pub fn item_key(i: &RustItem) -> Value {
    match i {
        RustItem::Struct(s) => json!(["struct", s.id.original]),
        RustItem::Enum(e) => json!(["enum", e.shared().id.original]),
        RustItem::Alias(a) => json!(["alias", a.id.original]),
        RustItem::Const(c) => json!(["const", c.id.original]),
        _ => json!(["other", ""]),
    }
}

pub fn handle(cmd: &str, v: &Value) -> Value {
    match cmd {
        "toposort_impl" => {
            let g: Vec<Vec<usize>> = serde_json::from_value(v["graph"].clone()).unwrap();
            guarded(move || json!({"ok": verif_hooks::toposort_impl(&g)}))
        }
        "sort_by_indices" => {
            let idx: Vec<usize> = serde_json::from_value(v["indices"].clone()).unwrap();
            let n = v["n"].as_u64().unwrap() as usize;
            guarded(move || {
                let mut data: Vec<usize> = (0..n).collect();
                verif_hooks::sort_by_indices(&mut data, idx);
                json!({"ok": data})
            })
        }
        "topsort" => {
            let mut items: Vec<RustItem> = v["items"].as_array().unwrap().iter().map(ir::item).collect();
            guarded(move || {
                verif_hooks::topsort(&mut items);
                json!({"ok": items.iter().map(item_key).collect::<Vec<_>>()})
            })
        }
        _ => json!({"bad": "cmd"}),
    }
}
