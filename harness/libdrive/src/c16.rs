use crate::{case::RenameRule, guarded};
use serde_json::{json, Value};
use typeshare_core::{
    context::{ParseContext, ParseFileContext},
    language::CrateName,
    parser::parse,
    rust_types::RustEnum,
    RenameExt,
};

pub fn parse_src(src: &str, multi_file: bool, target_os: &[String]) -> Result<Option<typeshare_core::parser::ParsedData>, typeshare_core::parser::ParseError> {
    let ctx = ParseContext {
        ignored_types: vec![],
        multi_file,
        target_os: target_os.to_vec(),
    };
    parse(
        &ctx,
        ParseFileContext {
            source_code: src.to_string(),
            crate_name: CrateName::from("c"),
            file_name: "f.rs".into(),
            file_path: "f.rs".into(),
        },
    )
}

pub fn handle(cmd: &str, v: &Value) -> Value {
    match cmd {
        "rename_direct" => {
            let s = v["s"].as_str().unwrap().to_string();
            let m = v["method"].as_str().unwrap().to_string();
            guarded(move || {
                let r = match m.as_str() {
                    "pascal" => s.to_pascal_case(),
                    "camel" => s.to_camel_case(),
                    "snake" => s.to_snake_case(),
                    "screaming_snake" => s.to_screaming_snake_case(),
                    "kebab" => s.to_kebab_case(),
                    "screaming_kebab" => s.to_screaming_kebab_case(),
                    _ => return json!({"bad": "method"}),
                };
                json!({ "ok": r })
            })
        }
        "rename_e2e" => {
            // one-field struct / one-variant enum through the public parser
            let ident = v["s"].as_str().unwrap();
            let pos = v["pos"].as_str().unwrap();
            let attr = match v["rule"].as_str() {
                Some(r) => format!("#[serde(rename_all = {:?})]", r),
                None => String::new(),
            };
            let src = if pos == "field" {
                format!("#[typeshare]\n{attr}\nstruct S {{ {ident}: u8 }}\n")
            } else {
                format!("#[typeshare]\n{attr}\nenum E {{ {ident} }}\n")
            };
            let pos = pos.to_string();
            guarded(move || match parse_src(&src, false, &[]) {
                Err(e) => json!({ "err": format!("{e:?}") }),
                Ok(None) => json!({ "err": "none" }),
                Ok(Some(pd)) => {
                    if !pd.errors.is_empty() {
                        return json!({ "err": format!("{:?}", pd.errors[0].error) });
                    }
                    if pos == "field" {
                        match pd.structs.first().and_then(|s| s.fields.first()) {
                            Some(f) => json!({ "ok": f.id.renamed, "original": f.id.original }),
                            None => json!({ "err": "nofield" }),
                        }
                    } else {
                        match pd.enums.first() {
                            Some(RustEnum::Unit(sh)) | Some(RustEnum::Algebraic { shared: sh, .. }) => {
                                match sh.variants.first() {
                                    Some(va) => json!({ "ok": va.shared().id.renamed, "original": va.shared().id.original }),
                                    None => json!({ "err": "novariant" }),
                                }
                            }
                            None => json!({ "err": "noenum" }),
                        }
                    }
                }
            })
        }
        "serde_case" => {
            let s = v["s"].as_str().unwrap().to_string();
            let pos = v["pos"].as_str().unwrap().to_string();
            let rule = v["rule"].as_str().unwrap().to_string();
            guarded(move || match RenameRule::from_str(&rule) {
                Err(_) => json!({ "unknown_rule": true }),
                Ok(r) => {
                    let out = if pos == "field" { r.apply_to_field(&s) } else { r.apply_to_variant(&s) };
                    json!({ "ok": out })
                }
            })
        }
        "unicode" => {
            let cp = v["cp"].as_u64().unwrap() as u32;
            match char::from_u32(cp) {
                None => json!({ "bad": "cp" }),
                Some(c) => json!({
                    "is_upper": c.is_uppercase(), "is_lower": c.is_lowercase(),
                    "lower": c.to_string().to_lowercase(), "upper": c.to_string().to_uppercase(),
                    "lower_c": c.to_lowercase().collect::<String>(), "upper_c": c.to_uppercase().collect::<String>(),
                    "is_ws": c.is_whitespace(),
                }),
            }
        }
        _ => json!({"bad": "cmd"}),
    }
}
