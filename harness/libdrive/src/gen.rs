//! `generate` (source text -> parse -> reconcile -> Language::generate_types, as the snapshot tests
//! do) and `generate_ir` (IR JSON -> generate_types): the real back ends on one input.
use crate::{dump, guarded, ir};
use serde_json::{json, Value};
use std::collections::{BTreeMap, HashMap};
use typeshare_core::{
    context::{ParseContext, ParseFileContext},
    language::{CrateName, GenericConstraints, Go, Kotlin, Language, Python, Scala, Swift, TypeScript},
    parser::{parse, ParsedData},
    reconcile::reconcile_aliases,
};

fn st(v: &Value) -> String {
    v.as_str().unwrap_or_default().to_string()
}
fn strs(v: &Value) -> Vec<String> {
    v.as_array().map(|a| a.iter().map(st).collect()).unwrap_or_default()
}
fn map(v: &Value) -> HashMap<String, String> {
    v.as_object().map(|o| o.iter().map(|(k, v)| (k.clone(), st(v))).collect()).unwrap_or_default()
}

pub fn language(lang: &str, c: &Value, multi_file: bool) -> Box<dyn Language> {
    let nvh = c["no_version_header"].as_bool().unwrap_or(true);
    match lang {
        "typescript" => Box::new(TypeScript { type_mappings: map(&c["type_mappings"]), no_version_header: nvh, ..Default::default() }),
        "kotlin" => Box::new(Kotlin {
            package: st(&c["package"]),
            module_name: st(&c["module_name"]),
            prefix: st(&c["prefix"]),
            type_mappings: map(&c["type_mappings"]),
            no_version_header: nvh,
            // (a field added to the struct by a change under test must not break the harness build)
            ..Default::default()
        }),
        "scala" => Box::new(Scala { package: st(&c["package"]), module_name: st(&c["module_name"]), type_mappings: map(&c["type_mappings"]), no_version_header: nvh, ..Default::default() }),
        "swift" => Box::new(Swift {
            prefix: st(&c["prefix"]),
            type_mappings: map(&c["type_mappings"]),
            default_decorators: strs(&c["default_decorators"]),
            default_generic_constraints: GenericConstraints::from_config(strs(&c["default_generic_constraints"])),
            multi_file,
            codablevoid_constraints: strs(&c["codablevoid_constraints"]),
            no_version_header: nvh,
            ..Default::default()
        }),
        "go" => Box::new(Go {
            package: st(&c["package"]),
            type_mappings: map(&c["type_mappings"]),
            uppercase_acronyms: strs(&c["uppercase_acronyms"]),
            no_pointer_slice: c["no_pointer_slice"].as_bool().unwrap_or(false),
            no_version_header: nvh,
            ..Default::default()
        }),
        _ => Box::new(Python { type_mappings: map(&c["type_mappings"]), no_version_header: nvh, ..Default::default() }),
    }
}

fn run(lang: &str, cfg: &Value, pd: ParsedData) -> Value {
    let mut l = language(lang, cfg, pd.multi_file);
    let mut out: Vec<u8> = Vec::new();
    match l.generate_types(&mut out, &HashMap::new(), pd) {
        Ok(()) => json!({"ok": String::from_utf8_lossy(&out)}),
        Err(e) => json!({"err": e.to_string(), "partial": String::from_utf8_lossy(&out)}),
    }
}

pub fn handle(cmd: &str, v: &Value) -> Value {
    let lang = v["lang"].as_str().unwrap_or("typescript").to_string();
    let cfg = v["cfg"].clone();
    match cmd {
        "generate" => {
            let src = st(&v["src"]);
            let target_os = strs(&v["target_os"]);
            guarded(move || {
                let ctx = ParseContext { target_os, ..Default::default() };
                let parsed = parse(&ctx, ParseFileContext { source_code: src, crate_name: "default_crate".into(), file_name: "file_name".into(), file_path: "file_path".into() });
                let pd = match parsed {
                    Err(e) => return json!({"parse_err": dump::error_name(&e)}),
                    Ok(None) => return json!({"none": true}),
                    Ok(Some(pd)) => pd,
                };
                if !pd.errors.is_empty() {
                    return json!({"parse_errors": pd.errors.iter().map(|e| dump::error_name(&e.error)).collect::<Vec<_>>()});
                }
                let all: CrateName = String::new().into();
                let mut m = BTreeMap::from_iter([(all.clone(), pd)]);
                reconcile_aliases(&mut m);
                let pd = m.remove(&all).unwrap();
                let ir = dump::parsed(&pd);
                let mut r = run(&lang, &cfg, pd);
                r["ir"] = ir;
                r
            })
        }
        "generate_ir" => {
            let items = v["items"].clone();
            let reconcile = v["reconcile"].as_bool().unwrap_or(false);
            guarded(move || {
                let mut pd = ParsedData::new(CrateName::from(""), "file_name".into(), false);
                for x in items["structs"].as_array().into_iter().flatten() {
                    pd.structs.push(ir::rstruct(x));
                }
                for x in items["enums"].as_array().into_iter().flatten() {
                    pd.enums.push(ir::renum(x));
                }
                for x in items["aliases"].as_array().into_iter().flatten() {
                    pd.aliases.push(ir::alias(x));
                }
                for x in items["consts"].as_array().into_iter().flatten() {
                    pd.consts.push(ir::rconst(x));
                }
                let pd = if reconcile {
                    let all: CrateName = String::new().into();
                    let mut m = BTreeMap::from_iter([(all.clone(), pd)]);
                    reconcile_aliases(&mut m);
                    m.remove(&all).unwrap()
                } else {
                    pd
                };
                run(&lang, &cfg, pd)
            })
        }
        _ => json!({"bad": "cmd"}),
    }
}
