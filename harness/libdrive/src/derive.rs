//! C19. `derive_ast`: the source text of ONE item -> the S-expression form of
//! coq/Model/Annotation.v's `macro_input` (decoded by ocaml/drv_c19.ml):
//!   (derive <attrs> <vis> <ident> <generics> <where> <data>)  for struct / enum / union
//!   (other <attrs> <tokens without the outer attributes>)      for every other item
//! Types, visibilities, generics, where-clauses and discriminants are token strings
//! (`to_token_stream().to_string()`); attributes use ast.rs's encoding.  `tokens` is the token
//! string of the whole item, used to compare an expansion with the expansion of its stripped twin
//! without any loss of information.
//! `derive_ast_file`: a whole (expanded) file laid out as `mod <twin> { mod m<N> { <item> .. } }`
//! -> for each twin and each m<N> the same data for the FIRST struct/enum/union/type/const/fn/static
//! of the module (derive output follows the item it was derived for).
//! This file uses syn with the "full" feature: it sees items as a complete Rust parser does, also
//! when the annotation crate's own syn (no "full") would fail on them.
use crate::ast::{attrs, lst, opt, s};
use quote::ToTokens;
use serde_json::{json, Map, Value};
use syn::{Data, DeriveInput, Fields, Item};

fn toks<T: ToTokens>(t: &T) -> String {
    s(&t.to_token_stream().to_string())
}

fn dfield(f: &syn::Field) -> String {
    format!("(dfield {} {} {} {})", attrs(&f.attrs), toks(&f.vis), opt(f.ident.as_ref().map(|i| s(&i.to_string()))), toks(&f.ty))
}

fn dfields(f: &Fields) -> String {
    match f {
        Fields::Named(n) => format!("(named {})", lst(n.named.iter().map(dfield).collect())),
        Fields::Unnamed(u) => format!("(unnamed {})", lst(u.unnamed.iter().map(dfield).collect())),
        Fields::Unit => "unit".into(),
    }
}

fn dvariant(v: &syn::Variant) -> String {
    format!(
        "(dvariant {} {} {} {})",
        attrs(&v.attrs),
        s(&v.ident.to_string()),
        dfields(&v.fields),
        opt(v.discriminant.as_ref().map(|(_, e)| toks(e)))
    )
}

fn derive_input(d: &DeriveInput) -> String {
    let data = match &d.data {
        Data::Struct(st) => format!("(struct {})", dfields(&st.fields)),
        Data::Enum(e) => format!("(enum {})", lst(e.variants.iter().map(dvariant).collect())),
        Data::Union(u) => format!("(union {})", lst(u.fields.named.iter().map(dfield).collect())),
    };
    let mut g = d.generics.clone();
    let wh = g.where_clause.take();
    format!(
        "(derive {} {} {} {} {} {})",
        attrs(&d.attrs),
        toks(&d.vis),
        s(&d.ident.to_string()),
        toks(&g),
        wh.map(|w| toks(&w)).unwrap_or_else(|| s("")),
        data
    )
}

fn take_attrs(i: &mut Item) -> Option<Vec<syn::Attribute>> {
    Some(std::mem::take(match i {
        Item::Const(x) => &mut x.attrs,
        Item::Enum(x) => &mut x.attrs,
        Item::ExternCrate(x) => &mut x.attrs,
        Item::Fn(x) => &mut x.attrs,
        Item::ForeignMod(x) => &mut x.attrs,
        Item::Impl(x) => &mut x.attrs,
        Item::Macro(x) => &mut x.attrs,
        Item::Mod(x) => &mut x.attrs,
        Item::Static(x) => &mut x.attrs,
        Item::Struct(x) => &mut x.attrs,
        Item::Trait(x) => &mut x.attrs,
        Item::TraitAlias(x) => &mut x.attrs,
        Item::Type(x) => &mut x.attrs,
        Item::Union(x) => &mut x.attrs,
        Item::Use(x) => &mut x.attrs,
        _ => return None,
    }))
}

fn item_sx(i: &Item) -> Result<(String, &'static str), String> {
    match i {
        Item::Struct(_) | Item::Enum(_) | Item::Union(_) => {
            let d: DeriveInput = syn::parse2(i.to_token_stream()).map_err(|e| format!("not a DeriveInput: {e}"))?;
            let kind = match d.data {
                Data::Struct(_) => "struct",
                Data::Enum(_) => "enum",
                Data::Union(_) => "union",
            };
            Ok((derive_input(&d), kind))
        }
        _ => {
            let mut j = i.clone();
            let a = take_attrs(&mut j).ok_or_else(|| "verbatim item".to_string())?;
            Ok((format!("(other {} {})", attrs(&a), toks(&j)), "other"))
        }
    }
}

fn describe(i: &Item) -> Value {
    match item_sx(i) {
        Ok((sx, kind)) => json!({"ok": sx, "kind": kind, "tokens": i.to_token_stream().to_string()}),
        Err(e) => json!({"err": e}),
    }
}

fn is_subject(i: &Item) -> bool {
    matches!(i, Item::Struct(_) | Item::Enum(_) | Item::Union(_) | Item::Type(_) | Item::Const(_) | Item::Fn(_) | Item::Static(_))
}

fn first_subject(items: &[Item]) -> Value {
    for i in items {
        if let Item::Const(c) = i {
            // `const _: () = { .. }` blocks are derive output, never the subject
            if c.ident == "_" {
                continue;
            }
        }
        if is_subject(i) {
            return describe(i);
        }
    }
    Value::Null
}

pub fn handle(cmd: &str, v: &Value) -> Value {
    let src = v["src"].as_str().unwrap_or("");
    match cmd {
        "derive_ast" => match syn::parse_str::<Item>(src) {
            Ok(i) => describe(&i),
            Err(e) => json!({"err": e.to_string()}),
        },
        "derive_ast_file" => match syn::parse_file(src) {
            Err(e) => json!({"err": e.to_string()}),
            Ok(f) => {
                let mut twins = Map::new();
                for t in &f.items {
                    if let Item::Mod(tm) = t {
                        let mut mods = Map::new();
                        if let Some((_, inner)) = &tm.content {
                            for m in inner {
                                if let Item::Mod(mm) = m {
                                    if let Some((_, items)) = &mm.content {
                                        mods.insert(mm.ident.to_string(), first_subject(items));
                                    }
                                }
                            }
                        }
                        twins.insert(tm.ident.to_string(), Value::Object(mods));
                    }
                }
                json!({"ok": twins})
            }
        },
        _ => json!({"bad": "cmd"}),
    }
}
