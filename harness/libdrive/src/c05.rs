//! C05: the real type translator on one type.
//!   c05_parse_type  {src}                       syn::parse_str::<Type> ; RustType::try_from  -> IR JSON (dump.rs format)
//!   c05_format_type {lang, cfg, generics, ty}   Language::format_type on an IR type (ir.rs format) -> text
//!   c05_format_seq  {lang, cfg, calls: [{generics, ty}]}   the same, call after call on ONE Language value -> [text | err]
use crate::{dump, gen, guarded, ir};
use serde_json::{json, Value};
use typeshare_core::rust_types::{RustType, RustTypeParseError};

pub fn handle(cmd: &str, v: &Value) -> Value {
    match cmd {
        "c05_parse_type" => {
            let src = v["src"].as_str().unwrap_or_default().to_string();
            guarded(move || match syn::parse_str::<syn::Type>(&src) {
                Err(e) => json!({"syn_err": e.to_string()}),
                Ok(t) => match RustType::try_from(&t) {
                    Ok(rt) => json!({"ok": dump::ty(&rt)}),
                    Err(e) => json!({"err": match e {
                        RustTypeParseError::UnsupportedType(_) => "EUnsupportedType",
                        RustTypeParseError::UnexpectedToken(_) => "EUnexpectedToken",
                        RustTypeParseError::UnexpectedParameterizedTuple => "EParameterizedTuple",
                        RustTypeParseError::NumericLiteral(_) => "ENumericLiteral",
                    }}),
                },
            })
        }
        "c05_format_type" => {
            let lang = v["lang"].as_str().unwrap_or("typescript").to_string();
            let cfg = v["cfg"].clone();
            let generics: Vec<String> = v["generics"].as_array().map(|a| a.iter().map(|x| x.as_str().unwrap_or_default().to_string()).collect()).unwrap_or_default();
            let t = v["ty"].clone();
            guarded(move || {
                let rt = ir::ty(&t);
                let mut l = gen::language(&lang, &cfg, false);
                match l.format_type(&rt, &generics) {
                    Ok(s) => json!({"ok": s}),
                    Err(e) => json!({"err": e.to_string()}),
                }
            })
        }
        "c05_format_seq" => {
            let lang = v["lang"].as_str().unwrap_or("typescript").to_string();
            let cfg = v["cfg"].clone();
            let calls: Vec<Value> = v["calls"].as_array().cloned().unwrap_or_default();
            guarded(move || {
                let mut l = gen::language(&lang, &cfg, false);
                let mut out = Vec::new();
                for c in &calls {
                    let generics: Vec<String> = c["generics"].as_array().map(|a| a.iter().map(|x| x.as_str().unwrap_or_default().to_string()).collect()).unwrap_or_default();
                    let rt = ir::ty(&c["ty"]);
                    out.push(match l.format_type(&rt, &generics) {
                        Ok(s) => json!({"ok": s}),
                        Err(e) => json!({"err": e.to_string()}),
                    });
                }
                json!({"seq": out})
            })
        }
        _ => json!({"bad": "cmd"}),
    }
}
