//! libdrive: runs the real typeshare library code (built from /repo's working tree) on cases read
//! from stdin, one JSON object per line, and prints one JSON object per line.
//! Every call into typeshare is wrapped in catch_unwind so that a panic is an observation.
use serde_json::{json, Value};
use std::io::{BufRead, Write};
use std::panic::{catch_unwind, AssertUnwindSafe};

#[allow(dead_code, clippy::all)]
mod case {
    include!(concat!(env!("OUT_DIR"), "/case.rs"));
}

mod ast;
mod c05;
mod c11;
mod c16;
mod c18;
mod derive;
mod dump;
mod front;
mod gen;
mod ir;

pub fn guarded<F: FnOnce() -> Value>(f: F) -> Value {
    match catch_unwind(AssertUnwindSafe(f)) {
        Ok(v) => v,
        Err(e) => {
            let msg = if let Some(s) = e.downcast_ref::<&str>() {
                s.to_string()
            } else if let Some(s) = e.downcast_ref::<String>() {
                s.clone()
            } else {
                "panic".to_string()
            };
            json!({ "panic": msg })
        }
    }
}

fn dispatch(v: &Value) -> Value {
    let cmd = v["cmd"].as_str().unwrap_or("");
    match cmd {
        "rename_direct" | "rename_e2e" | "serde_case" | "unicode" => c16::handle(cmd, v),
        "parse" => front::handle(cmd, v),
        "generate" | "generate_ir" => gen::handle(cmd, v),
        "toposort_impl" | "sort_by_indices" | "topsort" => c11::handle(cmd, v),
        "c18" | "c18_from" | "c18_json" | "c18_cmp" => c18::handle(cmd, v),
        "ast" | "ast_type" => ast::handle(cmd, v),
        "c05_parse_type" | "c05_format_type" | "c05_format_seq" => c05::handle(cmd, v),
        "derive_ast" | "derive_ast_file" => derive::handle(cmd, v),
        _ => json!({ "bad": format!("unknown cmd {cmd}") }),
    }
}

fn main() {
    std::panic::set_hook(Box::new(|_| {}));
    let stdin = std::io::stdin();
    let stdout = std::io::stdout();
    let mut out = std::io::BufWriter::new(stdout.lock());
    for line in stdin.lock().lines() {
        let line = line.unwrap();
        if line.trim().is_empty() {
            continue;
        }
        let v: Value = match serde_json::from_str(&line) {
            Ok(v) => v,
            Err(e) => {
                writeln!(out, "{}", json!({ "bad": e.to_string() })).unwrap();
                continue;
            }
        };
        let r = guarded(|| dispatch(&v));
        writeln!(out, "{}", r).unwrap();
    }
    out.flush().unwrap();
}
