//! `parse`: source text -> JSON dump of ParsedData through the public parser::parse.
use crate::{dump, guarded};
use serde_json::{json, Value};
use typeshare_core::{
    context::{ParseContext, ParseFileContext},
    language::CrateName,
    parser::parse,
};

pub fn handle(cmd: &str, v: &Value) -> Value {
    match cmd {
        "parse" => {
            let src = v["src"].as_str().unwrap().to_string();
            let multi = v["multi_file"].as_bool().unwrap_or(false);
            let target_os: Vec<String> = v["target_os"].as_array().map(|a| a.iter().map(|x| x.as_str().unwrap().to_string()).collect()).unwrap_or_default();
            let ignored: Vec<String> = v["ignored_types"].as_array().map(|a| a.iter().map(|x| x.as_str().unwrap().to_string()).collect()).unwrap_or_default();
            let crate_name = v["crate_name"].as_str().unwrap_or("c").to_string();
            let file_path = v["file_path"].as_str().unwrap_or("f.rs").to_string();
            guarded(move || {
                let ctx = ParseContext { ignored_types: ignored.iter().map(|s| s.as_str()).collect(), multi_file: multi, target_os };
                match parse(&ctx, ParseFileContext { source_code: src, crate_name: CrateName::from(crate_name), file_name: "out".into(), file_path: file_path.into() }) {
                    Err(e) => json!({"err": dump::error_name(&e)}),
                    Ok(None) => json!({"ok": Value::Null}),
                    Ok(Some(pd)) => json!({"ok": dump::parsed(&pd)}),
                }
            })
        }
        _ => json!({"bad": "cmd"}),
    }
}
