//! JSON (the format dump.rs prints) -> typeshare IR values. All IR structs have public fields.
use serde_json::Value;
use std::collections::{BTreeSet, HashMap};
use typeshare_core::{language::SupportedLanguage, parser::DecoratorKind, rust_types::*};

fn st(v: &Value) -> String {
    v.as_str().unwrap_or_default().to_string()
}
fn strs(v: &Value) -> Vec<String> {
    v.as_array().map(|a| a.iter().map(st).collect()).unwrap_or_default()
}

pub fn ty(v: &Value) -> RustType {
    match v["k"].as_str().unwrap() {
        "simple" => RustType::Simple { id: st(&v["id"]) },
        "generic" => RustType::Generic { id: st(&v["id"]), parameters: v["params"].as_array().unwrap().iter().map(ty).collect() },
        _ => {
            let p = |i: usize| Box::new(ty(&v["params"][i]));
            use SpecialRustType::*;
            RustType::Special(match v["name"].as_str().unwrap() {
                "Vec" => Vec(p(0)),
                "Array" => Array(p(0), v["len"].as_u64().unwrap() as usize),
                "Slice" => Slice(p(0)),
                "HashMap" => HashMap(p(0), p(1)),
                "Option" => Option(p(0)),
                "DateTime" => DateTime,
                "Unit" => Unit,
                "String" => String,
                "Char" => Char,
                "I8" => I8,
                "I16" => I16,
                "I32" => I32,
                "I64" => I64,
                "U8" => U8,
                "U16" => U16,
                "U32" => U32,
                "U64" => U64,
                "ISize" => ISize,
                "USize" => USize,
                "Bool" => Bool,
                "F32" => F32,
                "F64" => F64,
                "I54" => I54,
                "U53" => U53,
                other => panic!("unknown special {other}"),
            })
        }
    }
}

pub fn id(v: &Value) -> Id {
    Id { original: st(&v["original"]), renamed: st(&v["renamed"]), serde_rename: v["serde_rename"].as_bool().unwrap_or(false) }
}

fn lang(s: &str) -> SupportedLanguage {
    match s {
        "Go" => SupportedLanguage::Go,
        "Kotlin" => SupportedLanguage::Kotlin,
        "Scala" => SupportedLanguage::Scala,
        "Swift" => SupportedLanguage::Swift,
        "TypeScript" => SupportedLanguage::TypeScript,
        _ => SupportedLanguage::Python,
    }
}

fn decmap(v: &Value) -> DecoratorMap {
    let mut m: DecoratorMap = HashMap::new();
    if let Some(a) = v.as_array() {
        for kv in a {
            let k = match kv[0].as_str().unwrap() {
                "Swift" => DecoratorKind::Swift,
                "SwiftGenericConstraints" => DecoratorKind::SwiftGenericConstraints,
                _ => DecoratorKind::Kotlin,
            };
            m.insert(k, strs(&kv[1]).into_iter().collect::<BTreeSet<_>>());
        }
    }
    m
}

pub fn field(v: &Value) -> RustField {
    let mut decorators: HashMap<SupportedLanguage, BTreeSet<FieldDecorator>> = HashMap::new();
    if let Some(a) = v["decorators"].as_array() {
        for kv in a {
            let set = kv[1]
                .as_array()
                .unwrap()
                .iter()
                .map(|d| {
                    if d.get("word").is_some() {
                        FieldDecorator::Word(st(&d["word"]))
                    } else {
                        FieldDecorator::NameValue(st(&d["name"]), st(&d["value"]))
                    }
                })
                .collect();
            decorators.insert(lang(kv[0].as_str().unwrap()), set);
        }
    }
    RustField { id: id(&v["id"]), ty: ty(&v["ty"]), comments: strs(&v["comments"]), has_default: v["has_default"].as_bool().unwrap_or(false), decorators }
}

pub fn rstruct(v: &Value) -> RustStruct {
    RustStruct {
        id: id(&v["id"]),
        generic_types: strs(&v["generics"]),
        fields: v["fields"].as_array().unwrap().iter().map(field).collect(),
        comments: strs(&v["comments"]),
        decorators: decmap(&v["decorators"]),
        is_redacted: v["is_redacted"].as_bool().unwrap_or(false),
    }
}

pub fn variant(v: &Value) -> RustEnumVariant {
    let shared = RustEnumVariantShared { id: id(&v["id"]), comments: strs(&v["comments"]) };
    match v["k"].as_str().unwrap() {
        "unit" => RustEnumVariant::Unit(shared),
        "tuple" => RustEnumVariant::Tuple { ty: ty(&v["ty"]), shared },
        _ => RustEnumVariant::AnonymousStruct { fields: v["fields"].as_array().unwrap().iter().map(field).collect(), shared },
    }
}

pub fn renum(v: &Value) -> RustEnum {
    let shared = RustEnumShared {
        id: id(&v["id"]),
        generic_types: strs(&v["generics"]),
        comments: strs(&v["comments"]),
        variants: v["variants"].as_array().unwrap().iter().map(variant).collect(),
        decorators: decmap(&v["decorators"]),
        is_recursive: v["is_recursive"].as_bool().unwrap_or(false),
        is_redacted: v["is_redacted"].as_bool().unwrap_or(false),
    };
    if v["algebraic"].as_bool().unwrap_or(false) {
        RustEnum::Algebraic { tag_key: st(&v["tag"]), content_key: st(&v["content"]), shared }
    } else {
        RustEnum::Unit(shared)
    }
}

pub fn alias(v: &Value) -> RustTypeAlias {
    RustTypeAlias {
        id: id(&v["id"]),
        generic_types: strs(&v["generics"]),
        r#type: ty(&v["ty"]),
        comments: strs(&v["comments"]),
        decorators: decmap(&v["decorators"]),
        is_redacted: v["is_redacted"].as_bool().unwrap_or(false),
    }
}

pub fn rconst(v: &Value) -> RustConst {
    RustConst { id: id(&v["id"]), r#type: ty(&v["ty"]), expr: RustConstExpr::Int(v["value"].as_str().unwrap().parse().unwrap()) }
}

pub fn item(v: &Value) -> RustItem {
    match v["kind"].as_str().unwrap() {
        "struct" => RustItem::Struct(rstruct(v)),
        "enum" => RustItem::Enum(renum(v)),
        "alias" => RustItem::Alias(alias(v)),
        _ => RustItem::Const(rconst(v)),
    }
}
