//! JSON view of typeshare's IR (ParsedData and friends); field by field, nothing interpreted.
use serde_json::{json, Value};
use typeshare_core::{
    parser::{ParseError, ParsedData},
    rust_types::*,
};

pub fn ty(t: &RustType) -> Value {
    match t {
        RustType::Simple { id } => json!({"k": "simple", "id": id}),
        RustType::Generic { id, parameters } => json!({"k": "generic", "id": id, "params": parameters.iter().map(ty).collect::<Vec<_>>()}),
        RustType::Special(s) => special(s),
    }
}

fn special(s: &SpecialRustType) -> Value {
    use SpecialRustType::*;
    match s {
        Vec(t) => json!({"k": "special", "name": "Vec", "params": [ty(t)]}),
        Array(t, n) => json!({"k": "special", "name": "Array", "params": [ty(t)], "len": n}),
        Slice(t) => json!({"k": "special", "name": "Slice", "params": [ty(t)]}),
        HashMap(a, b) => json!({"k": "special", "name": "HashMap", "params": [ty(a), ty(b)]}),
        Option(t) => json!({"k": "special", "name": "Option", "params": [ty(t)]}),
        other => json!({"k": "special", "name": format!("{other:?}"), "params": []}),
    }
}

pub fn id(i: &Id) -> Value {
    json!({"original": i.original, "renamed": i.renamed, "serde_rename": i.serde_rename})
}

fn decorators_map(d: &DecoratorMap) -> Value {
    let mut v: Vec<(String, Vec<String>)> = d.iter().map(|(k, s)| (format!("{k:?}"), s.iter().cloned().collect())).collect();
    v.sort();
    json!(v)
}

pub fn field(f: &RustField) -> Value {
    let mut decs: Vec<(String, Vec<Value>)> = f
        .decorators
        .iter()
        .map(|(l, s)| {
            (
                format!("{l:?}"),
                s.iter()
                    .map(|d| match d {
                        FieldDecorator::Word(w) => json!({"word": w}),
                        FieldDecorator::NameValue(n, v) => json!({"name": n, "value": v}),
                    })
                    .collect(),
            )
        })
        .collect();
    decs.sort_by(|a, b| a.0.cmp(&b.0));
    json!({"id": id(&f.id), "ty": ty(&f.ty), "comments": f.comments, "has_default": f.has_default, "decorators": decs})
}

pub fn rstruct(s: &RustStruct) -> Value {
    json!({"kind": "struct", "id": id(&s.id), "generics": s.generic_types, "fields": s.fields.iter().map(field).collect::<Vec<_>>(),
           "comments": s.comments, "decorators": decorators_map(&s.decorators), "is_redacted": s.is_redacted})
}

pub fn variant(v: &RustEnumVariant) -> Value {
    match v {
        RustEnumVariant::Unit(sh) => json!({"k": "unit", "id": id(&sh.id), "comments": sh.comments}),
        RustEnumVariant::Tuple { ty: t, shared } => json!({"k": "tuple", "id": id(&shared.id), "comments": shared.comments, "ty": ty(t)}),
        RustEnumVariant::AnonymousStruct { fields, shared } => {
            json!({"k": "struct", "id": id(&shared.id), "comments": shared.comments, "fields": fields.iter().map(field).collect::<Vec<_>>()})
        }
    }
}

pub fn renum(e: &RustEnum) -> Value {
    let sh = e.shared();
    let (tag, content) = match e {
        RustEnum::Unit(_) => (Value::Null, Value::Null),
        RustEnum::Algebraic { tag_key, content_key, .. } => (json!(tag_key), json!(content_key)),
    };
    json!({"kind": "enum", "algebraic": matches!(e, RustEnum::Algebraic{..}), "tag": tag, "content": content,
           "id": id(&sh.id), "generics": sh.generic_types, "comments": sh.comments,
           "variants": sh.variants.iter().map(variant).collect::<Vec<_>>(),
           "decorators": decorators_map(&sh.decorators), "is_recursive": sh.is_recursive, "is_redacted": sh.is_redacted})
}

pub fn alias(a: &RustTypeAlias) -> Value {
    json!({"kind": "alias", "id": id(&a.id), "generics": a.generic_types, "ty": ty(&a.r#type), "comments": a.comments,
           "decorators": decorators_map(&a.decorators), "is_redacted": a.is_redacted})
}

pub fn rconst(c: &RustConst) -> Value {
    let RustConstExpr::Int(v) = c.expr;
    json!({"kind": "const", "id": id(&c.id), "ty": ty(&c.r#type), "value": v.to_string()})
}

pub fn error_name(e: &ParseError) -> String {
    use typeshare_core::rust_types::RustTypeParseError as T;
    match e {
        ParseError::SynError(_) => "ESyn".into(),
        ParseError::RustTypeParseError(t) => match t {
            T::UnsupportedType(_) => "EUnsupportedType".into(),
            T::UnexpectedToken(_) => "EUnexpectedToken".into(),
            T::UnexpectedParameterizedTuple => "EParameterizedTuple".into(),
            T::NumericLiteral(_) => "ENumericLiteral".into(),
        },
        ParseError::UnsupportedLanguage(_) => "EUnsupportedLanguage".into(),
        ParseError::UnsupportedType(_) => "EUnsupportedTypeP".into(),
        ParseError::ComplexTupleStruct => "EComplexTupleStruct".into(),
        ParseError::MultipleUnnamedAssociatedTypes => "EMultipleUnnamed".into(),
        ParseError::SerdeTagNotAllowed { .. } => "ESerdeTagNotAllowed".into(),
        ParseError::SerdeContentNotAllowed { .. } => "ESerdeContentNotAllowed".into(),
        ParseError::SerdeTagRequired { .. } => "ESerdeTagRequired".into(),
        ParseError::SerdeContentRequired { .. } => "ESerdeContentRequired".into(),
        ParseError::RustConstExprInvalid => "EConstExprInvalid".into(),
        ParseError::RustConstTypeInvalid => "EConstTypeInvalid".into(),
        ParseError::SerdeFlattenNotAllowed => "ESerdeFlatten".into(),
        ParseError::IOError(_) => "EIO".into(),
    }
}

pub fn parsed(pd: &ParsedData) -> Value {
    let mut imports: Vec<(String, String)> = pd.import_types.iter().map(|i| (i.base_crate.to_string(), i.type_name.clone())).collect();
    imports.sort();
    let mut names: Vec<&String> = pd.type_names.iter().collect();
    names.sort();
    json!({
        "structs": pd.structs.iter().map(rstruct).collect::<Vec<_>>(),
        "enums": pd.enums.iter().map(renum).collect::<Vec<_>>(),
        "aliases": pd.aliases.iter().map(alias).collect::<Vec<_>>(),
        "consts": pd.consts.iter().map(rconst).collect::<Vec<_>>(),
        "imports": imports, "type_names": names,
        "errors": pd.errors.iter().map(|e| json!({"file": e.file_name, "error": error_name(&e.error)})).collect::<Vec<_>>(),
        "crate_name": pd.crate_name.to_string(), "file_name": pd.file_name, "multi_file": pd.multi_file,
    })
}
