//! C18: the public API of the `typeshare` crate (I54 / U53) on one value per request.
//! The answer is one canonical text line so that it can be compared with the model's verbatim.
use serde_json::{json, Value};
use std::convert::TryFrom;
use typeshare::{usize_from_u53_saturated, I54, U53};

fn o<T: std::fmt::Display, E>(r: Result<T, E>) -> String {
    match r {
        Ok(v) => v.to_string(),
        Err(_) => "-".into(),
    }
}

pub fn u53_line(v: u64) -> String {
    match U53::try_from(v) {
        Err(_) => "T:-".into(),
        Ok(x) => {
            let back: u64 = x.into();
            let ser = serde_json::to_string(&x).unwrap_or_else(|_| "SERIALIZE-ERROR".into());
            let de: Result<U53, _> = serde_json::from_str(&ser);
            let dbl = back as f64;
            let via_double = dbl as u64;
            let f: f64 = serde_json::from_str(&ser).unwrap_or(f64::NAN);
            format!(
                "T:{}|B:{}|N8:{}|N16:{}|N32:{}|S:{}|D:{}|U:{}|F:{}|J:{}|E:{}",
                x, back, o(u8::try_from(x)), o(u16::try_from(x)), o(u32::try_from(x)), ser, o(de.map(u64::from)),
                usize_from_u53_saturated(x), via_double, f as u64, (x == back) as u8
            )
        }
    }
}

pub fn i54_line(v: i64) -> String {
    match I54::try_from(v) {
        Err(_) => "T:-".into(),
        Ok(x) => {
            let back: i64 = x.into();
            let ser = serde_json::to_string(&x).unwrap_or_else(|_| "SERIALIZE-ERROR".into());
            let de: Result<I54, _> = serde_json::from_str(&ser);
            let dbl = back as f64;
            let via_double = dbl as i64;
            let f: f64 = serde_json::from_str(&ser).unwrap_or(f64::NAN);
            format!(
                "T:{}|B:{}|N8:{}|N16:{}|N32:{}|S:{}|D:{}|U:{}|F:{}|J:{}|E:{}",
                x, back, o(i8::try_from(x)), o(i16::try_from(x)), o(i32::try_from(x)), ser, o(de.map(i64::from)),
                "-", via_double, f as i64, (x == back) as u8
            )
        }
    }
}

pub fn handle(cmd: &str, v: &Value) -> Value {
    match cmd {
        "c18" => {
            let s = v["v"].as_str().unwrap();
            let line = if v["ty"] == "u53" { u53_line(s.parse().unwrap()) } else { i54_line(s.parse().unwrap()) };
            json!({ "r": line })
        }
        "c18_from" => {
            // widening From<narrow>, then everything else on the result
            let s = v["v"].as_str().unwrap();
            let line = match v["from"].as_str().unwrap() {
                "u8" => u53_line(u64::from(U53::from(s.parse::<u8>().unwrap()))),
                "u16" => u53_line(u64::from(U53::from(s.parse::<u16>().unwrap()))),
                "u32" => u53_line(u64::from(U53::from(s.parse::<u32>().unwrap()))),
                "i8" => i54_line(i64::from(I54::from(s.parse::<i8>().unwrap()))),
                "i16" => i54_line(i64::from(I54::from(s.parse::<i16>().unwrap()))),
                "i32" => i54_line(i64::from(I54::from(s.parse::<i32>().unwrap()))),
                _ => "bad".into(),
            };
            json!({ "r": line })
        }
        "c18_json" => {
            let lit = v["lit"].as_str().unwrap();
            let r = if v["ty"] == "u53" {
                o(serde_json::from_str::<U53>(lit).map(u64::from))
            } else {
                o(serde_json::from_str::<I54>(lit).map(i64::from))
            };
            json!({ "r": r })
        }
        "c18_cmp" => {
            let (a, b) = (v["a"].as_str().unwrap(), v["b"].as_str().unwrap());
            let r = if v["ty"] == "u53" {
                let (x, y) = (U53::try_from(a.parse::<u64>().unwrap()).unwrap(), U53::try_from(b.parse::<u64>().unwrap()).unwrap());
                format!("{:?}|{}|{:?}", x.cmp(&y), x == y, x.partial_cmp(&b.parse::<u64>().unwrap()))
            } else {
                let (x, y) = (I54::try_from(a.parse::<i64>().unwrap()).unwrap(), I54::try_from(b.parse::<i64>().unwrap()).unwrap());
                format!("{:?}|{}|{:?}", x.cmp(&y), x == y, x.partial_cmp(&b.parse::<i64>().unwrap()))
            };
            json!({ "r": r })
        }
        _ => json!({"bad": "cmd"}),
    }
}
