//! `ast`: Rust source text -> the S-expression form of coq/Model/Syntax.v, using syn.
//! This is the harness's view of "what typeshare receives from syn"; it contains no typeshare
//! logic except a copy of the token-level decorator parser (parser.rs:745-787), which syn cannot
//! express as a Meta.
use proc_macro2::Ident;
use serde_json::{json, Value};
use syn::ext::IdentExt;
use syn::parse::ParseBuffer;
use syn::punctuated::Punctuated;
use syn::visit::Visit;
use syn::{Expr, ExprLit, Lit, LitStr, Meta, Token};

pub(crate) fn s(x: &str) -> String {
    let mut out = String::from("s");
    let mut first = true;
    for c in x.chars() {
        if !first {
            out.push('.');
        }
        first = false;
        out.push_str(&(c as u32).to_string());
    }
    out
}

pub(crate) fn lst(items: Vec<String>) -> String {
    format!("({})", items.join(" "))
}

pub(crate) fn opt(x: Option<String>) -> String {
    match x {
        None => "none".into(),
        Some(v) => format!("(some {v})"),
    }
}

fn path(p: &syn::Path) -> String {
    let mut segs = vec![];
    if p.leading_colon.is_some() {
        segs.push(s(""));
    }
    for seg in &p.segments {
        segs.push(s(&seg.ident.to_string()));
    }
    lst(segs)
}

fn value(e: &Expr) -> String {
    match e {
        Expr::Lit(ExprLit { lit: Lit::Str(v), .. }) => format!("(str {})", s(&v.value())),
        _ => "other".into(),
    }
}

fn decorator_args(list: &syn::MetaList) -> Option<Vec<(String, Option<String>)>> {
    list.parse_args_with(|input: &ParseBuffer| {
        let mut res: Vec<(String, Option<String>)> = vec![];
        loop {
            if input.is_empty() {
                break;
            }
            let ident = input.call(Ident::parse_any)?;
            if input.peek(Token![,]) || input.is_empty() {
                input.parse::<Token![,]>().unwrap_or_default();
                res.push((ident.to_string(), None));
                continue;
            }
            if input.is_empty() {
                break;
            }
            let _eq = input.parse::<Token![=]>()?;
            let value: LitStr = input.parse()?;
            res.push((ident.to_string(), Some(value.value())));
            if input.is_empty() {
                break;
            }
            input.parse::<Token![,]>()?;
        }
        Ok(res)
    })
    .ok()
}

fn meta(m: &Meta) -> String {
    match m {
        Meta::Path(p) => format!("(path {})", path(p)),
        Meta::List(l) => {
            let args = l
                .parse_args_with(Punctuated::<Meta, Token![,]>::parse_terminated)
                .ok()
                .map(|p| lst(p.iter().map(meta).collect()));
            let is_lang = l.path.get_ident().map(|i| {
                matches!(i.to_string().to_lowercase().as_str(), "go" | "kotlin" | "scala" | "swift" | "typescript" | "python")
            }).unwrap_or(false);
            let dargs = (if is_lang { decorator_args(l) } else { None }).map(|v| lst(v.iter().map(|(i, val)| format!("({} {})", s(i), opt(val.as_ref().map(|x| s(x))))).collect()));
            format!("(list {} {} {})", path(&l.path), opt(args), opt(dargs))
        }
        Meta::NameValue(nv) => format!("(nv {} {})", path(&nv.path), value(&nv.value)),
    }
}

pub(crate) fn attrs(a: &[syn::Attribute]) -> String {
    lst(a.iter()
        .map(|x| format!("(attr {} {})", matches!(x.style, syn::AttrStyle::Inner(_)), meta(&x.meta)))
        .collect())
}

fn ty(t: &syn::Type) -> String {
    match t {
        syn::Type::Path(p) => {
            let n = p.path.segments.len();
            let mut quals = vec![];
            if p.path.leading_colon.is_some() {
                quals.push(s(""));
            }
            for seg in p.path.segments.iter().take(n - 1) {
                quals.push(s(&seg.ident.to_string()));
            }
            let last = p.path.segments.last().unwrap();
            let args = match &last.arguments {
                syn::PathArguments::AngleBracketed(ab) => ab
                    .args
                    .iter()
                    .map(|a| match a {
                        syn::GenericArgument::Type(t) => opt(Some(ty(t))),
                        _ => opt(None),
                    })
                    .collect(),
                _ => vec![],
            };
            format!("(tpath {} {} {})", lst(quals), s(&last.ident.to_string()), lst(args))
        }
        syn::Type::Reference(r) => format!("(tref {})", ty(&r.elem)),
        syn::Type::Tuple(t) => format!("(ttuple {})", lst(t.elems.iter().map(ty).collect())),
        syn::Type::Array(a) => {
            let len = match &a.len {
                Expr::Lit(ExprLit { lit: Lit::Int(c), .. }) => format!("(alit {})", opt(c.base10_parse::<usize>().ok().map(|n| format!("n{n}")))),
                _ => "aother".into(),
            };
            format!("(tarray {} {})", ty(&a.elem), len)
        }
        syn::Type::Slice(sl) => format!("(tslice {})", ty(&sl.elem)),
        _ => "tother".into(),
    }
}

fn field(f: &syn::Field) -> String {
    format!("(field {} {} {})", attrs(&f.attrs), opt(f.ident.as_ref().map(|i| s(&i.to_string()))), ty(&f.ty))
}

fn fields(f: &syn::Fields) -> String {
    match f {
        syn::Fields::Named(n) => format!("(named {})", lst(n.named.iter().map(field).collect())),
        syn::Fields::Unnamed(u) => format!("(unnamed {})", lst(u.unnamed.iter().map(field).collect())),
        syn::Fields::Unit => "unit".into(),
    }
}

fn generics(g: &syn::Generics) -> String {
    lst(g.params
        .iter()
        .map(|p| match p {
            syn::GenericParam::Type(t) => format!("(gptype {})", s(&t.ident.to_string())),
            _ => "gpother".into(),
        })
        .collect())
}

// const initialiser: the shapes parse_const_expr distinguishes (Model/Syntax.v cexpr)
fn cexpr(e: &Expr) -> String {
    match e {
        Expr::Lit(ExprLit { lit: Lit::Int(li), .. }) => {
            format!("(celit (cint {}))", opt(li.base10_parse::<i128>().ok().map(|v| format!("z{v}"))))
        }
        Expr::Lit(_) => "(celit cnotint)".into(),
        Expr::Paren(p) => format!("(ceparen {})", cexpr(&p.expr)),
        Expr::Group(g) => format!("(ceparen {})", cexpr(&g.expr)),
        Expr::Unary(syn::ExprUnary { op: syn::UnOp::Neg(_), expr, .. }) => format!("(ceneg {})", cexpr(expr)),
        _ => "ceother".into(),
    }
}

fn use_tree(t: &syn::UseTree) -> String {
    match t {
        syn::UseTree::Path(p) => format!("(upath {} {})", s(&p.ident.to_string()), use_tree(&p.tree)),
        syn::UseTree::Name(n) => format!("(uname {})", s(&n.ident.to_string())),
        syn::UseTree::Rename(r) => format!("(urename {} {})", s(&r.ident.to_string()), s(&r.rename.to_string())),
        syn::UseTree::Glob(_) => "uglob".into(),
        syn::UseTree::Group(g) => format!("(ugroup {})", lst(g.items.iter().map(use_tree).collect())),
    }
}

/// Collects the items reachable from one syntax node in syn's visit order (nesting preserved).
struct Items(Vec<String>);
impl<'ast> Visit<'ast> for Items {
    fn visit_item(&mut self, i: &'ast syn::Item) {
        // the item itself (if it is one typeshare looks at), then whatever syn visits inside it
        let leaf = match i {
            syn::Item::Struct(st) => Some(format!("(struct {} {} {} {})", attrs(&st.attrs), s(&st.ident.to_string()), generics(&st.generics), fields(&st.fields))),
            syn::Item::Enum(e) => Some(format!(
                "(enum {} {} {} {})",
                attrs(&e.attrs),
                s(&e.ident.to_string()),
                generics(&e.generics),
                lst(e.variants.iter().map(|v| format!("(variant {} {} {})", attrs(&v.attrs), s(&v.ident.to_string()), fields(&v.fields))).collect())
            )),
            syn::Item::Type(t) => Some(format!("(type {} {} {} {})", attrs(&t.attrs), s(&t.ident.to_string()), generics(&t.generics), ty(&t.ty))),
            syn::Item::Const(c) => Some(format!("(const {} {} {} {})", attrs(&c.attrs), s(&c.ident.to_string()), ty(&c.ty), cexpr(&c.expr))),
            syn::Item::Use(u) => Some(format!("(use {})", use_tree(&u.tree))),
            _ => None,
        };
        if let Some(l) = leaf {
            self.0.push(l);
        }
        let mut inner = Items(vec![]);
        syn::visit::visit_item(&mut inner, i);
        if !inner.0.is_empty() {
            self.0.push(format!("(nest {})", lst(inner.0)));
        }
    }
}

struct Paths(Vec<String>);
impl<'ast> Visit<'ast> for Paths {
    fn visit_path(&mut self, p: &'ast syn::Path) {
        self.0.push(path(p));
        syn::visit::visit_path(self, p);
    }
}

/// every `serialized_as = "..."` string in the file (trimmed, as typeshare sees it) with the
/// syn::Type it parses to, for the model's FromStr oracle
struct Tstrs(Vec<String>);
impl Tstrs {
    fn scan(&mut self, m: &Meta) {
        if let Meta::List(l) = m {
            if let Ok(p) = l.parse_args_with(Punctuated::<Meta, Token![,]>::parse_terminated) {
                for x in p.iter() {
                    if let Meta::NameValue(nv) = x {
                        if nv.path.is_ident("serialized_as") {
                            if let Expr::Lit(ExprLit { lit: Lit::Str(v), .. }) = &nv.value {
                                let key = v.value().trim().to_string();
                                let parsed = syn::parse_str::<syn::Type>(&key).ok().map(|t| ty(&t));
                                self.0.push(format!("({} {})", s(&key), opt(parsed)));
                            }
                        }
                    }
                    self.scan(x);
                }
            }
        }
    }
}
impl<'ast> Visit<'ast> for Tstrs {
    fn visit_attribute(&mut self, a: &'ast syn::Attribute) {
        self.scan(&a.meta);
    }
}

pub fn tstrs_sx(src: &str) -> String {
    match syn::parse_file(src) {
        Err(_) => "()".into(),
        Ok(f) => {
            let mut t = Tstrs(vec![]);
            t.visit_file(&f);
            lst(t.0)
        }
    }
}

pub fn file_sx(src: &str) -> Result<String, String> {
    let f = syn::parse_file(src).map_err(|e| e.to_string())?;
    let mut items = Items(vec![]);
    for i in &f.items {
        items.visit_item(i);
    }
    let mut paths = Paths(vec![]);
    paths.visit_file(&f);
    Ok(format!("(file {} {} {} {})", attrs(&f.attrs), lst(items.0), lst(paths.0), src.contains("#[typeshare")))
}

pub fn handle(cmd: &str, v: &Value) -> Value {
    match cmd {
        "ast" => match file_sx(v["src"].as_str().unwrap()) {
            Ok(sx) => json!({"ok": sx, "tstrs": tstrs_sx(v["src"].as_str().unwrap())}),
            Err(e) => json!({"err": e}),
        },
        "ast_type" => match syn::parse_str::<syn::Type>(v["src"].as_str().unwrap()) {
            Ok(t) => json!({"ok": ty(&t)}),
            Err(e) => json!({"err": e.to_string()}),
        },
        _ => json!({"bad": "cmd"}),
    }
}
