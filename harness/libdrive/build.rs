// Locates serde_derive's own case.rs (the version pinned by /repo/Cargo.lock) in the offline cargo
// registry and copies it, minus inner doc comments, into OUT_DIR so that main.rs can include it.
use std::{env, fs, path::PathBuf};
fn main() {
    let lock = fs::read_to_string("/repo/Cargo.lock").unwrap_or_default();
    let mut version = String::from("1.0.214");
    let mut lines = lock.lines();
    while let Some(l) = lines.next() {
        if l.trim() == "name = \"serde_derive\"" {
            if let Some(v) = lines.next() {
                if let Some(v) = v.trim().strip_prefix("version = \"") {
                    version = v.trim_end_matches('"').to_string();
                }
            }
        }
    }
    let home = env::var("CARGO_HOME").unwrap_or_else(|_| format!("{}/.cargo", env::var("HOME").unwrap()));
    let src = PathBuf::from(home).join("registry/src");
    let mut found = None;
    for reg in fs::read_dir(&src).expect("registry/src") {
        let p = reg.unwrap().path().join(format!("serde_derive-{version}/src/internals/case.rs"));
        if p.exists() {
            found = Some(p);
        }
    }
    let p = found.expect("serde_derive case.rs not found in the offline registry");
    let text = fs::read_to_string(&p).unwrap();
    let stripped: String = text
        .lines()
        .filter(|l| !l.trim_start().starts_with("//!"))
        .collect::<Vec<_>>()
        .join("\n");
    // cut the #[test] functions at the end (they need nothing, but keep the include minimal)
    let cut = stripped.find("#[test]").unwrap_or(stripped.len());
    let out = PathBuf::from(env::var("OUT_DIR").unwrap()).join("case.rs");
    fs::write(&out, &stripped[..cut]).unwrap();
    println!("cargo:rerun-if-changed=/repo/Cargo.lock");
    println!("cargo:rerun-if-changed={}", p.display());
}
