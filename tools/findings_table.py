#!/usr/bin/env python3
"""tools/findings_table.py: markdown table of KNOWN_FINDINGS.jsonl for DESIGN.md (block between
<!-- FINDINGS-TABLE-BEGIN --> and <!-- FINDINGS-TABLE-END -->). KNOWN_FINDINGS.jsonl stays the authoritative list."""
import json, pathlib, re
root = pathlib.Path(__file__).resolve().parent.parent
rows = []
recs = [json.loads(l) for l in (root / 'KNOWN_FINDINGS.jsonl').read_text().splitlines() if l.strip() and not l.startswith('#')]
recs.sort(key=lambda r: (r['property'], r['id']))
for r in recs:
    st = str(r.get('status', 'open'))
    what = r['what_fails'].replace('|', '/').replace('\n', ' ')
    if len(what) > 230:
        what = what[:227] + '...'
    rows.append(f"| {r['property']} | {r['id']} | {what} | {r.get('where', '').replace('|', '/')[:80]} | {'open' if st.startswith('open') else st[:60]} |")
nopen = sum(1 for r in recs if str(r.get('status', 'open')).startswith('open'))
table = [f'{len(recs)} recorded findings, {nopen} open, {len(recs) - nopen} fixed by `fix:` commits in /repo.', '',
         '| property | id | what fails | where | status |', '|---|---|---|---|---|'] + rows
block = '<!-- FINDINGS-TABLE-BEGIN -->\n' + '\n'.join(table) + '\n<!-- FINDINGS-TABLE-END -->'
p = root / 'DESIGN.md'
s = p.read_text()
if '<!-- FINDINGS-TABLE-BEGIN -->' in s:
    s = re.sub(r'<!-- FINDINGS-TABLE-BEGIN -->.*?<!-- FINDINGS-TABLE-END -->', lambda _: block, s, flags=re.S)
else:
    marker = '## 13. Build order'
    s = s.replace(marker, '## 12a. All recorded findings (generated from KNOWN_FINDINGS.jsonl by tools/findings_table.py)\n\n'
                  'Each open finding is a genuine defect of the unchanged tree inside a property\'s quantifier: a decidable class, a refutation witness\n'
                  'lemma in Coq, and a reproduction against the real code on every run of the property\'s check (printed as `KNOWN-FINDING:`).\n\n' + block + '\n\n' + marker, 1)
p.write_text(s)
print(len(recs), 'findings', nopen, 'open')
