#!/bin/bash
# tools/run_all_mutants.sh [ids...]: run every seeded change (seeded/<id>/patch.diff) against the check of the property it
# breaks (scratch copy of /repo through VERIF_REPO) and print one line per change: DETECTED (with or without a failing input) / MISSED.
HERE=$(cd "$(dirname "$0")/.." && pwd); cd "$HERE"
ids=${@:-$(ls seeded)}
for id in $ids; do
  [ -f seeded/$id/patch.diff ] || continue
  prop=$(python3 -c "import json;print(json.load(open('seeded/$id/meta.json'))['breaks_property'])" 2>/dev/null || echo ${id%%_*})
  out=$(tools/try_mutant.sh $prop seeded/$id/patch.diff 2>&1)
  nv=$(echo "$out" | grep -c "^VIOLATION")
  ni=$(echo "$out" | grep "^VIOLATION" | grep -vc "no-failing-input-found")
  if echo "$out" | grep -q "patch does not apply"; then echo "$id $prop PATCH-DOES-NOT-APPLY";
  elif [ "$nv" -gt 0 ]; then echo "$id $prop DETECTED violations>=$nv with_failing_input=$ni";
  else echo "$id $prop MISSED  $(echo "$out" | grep "^\[$prop\]" | cut -c1-120)"; fi
done
