#!/bin/bash
# tools/run_all_mutants.sh [ids...]: run every seeded change against the check of the property it breaks (scratch copy of /repo
# through VERIF_REPO) and print one line per change: DETECTED (with or without a failing input) / MISSED / PATCH-DOES-NOT-APPLY.
# Of the patch files of a change (patch.diff and its rebased forms patch.after_fix*.diff, patch_rebased.diff) the first that
# applies to /repo's HEAD is used.  Changes of DIFFERENT properties may run in parallel (tools/try_mutant.sh takes a build slot).
HERE=$(cd "$(dirname "$0")/.." && pwd); cd "$HERE"
ids=${@:-$(ls seeded)}
for id in $ids; do
  [ -d seeded/$id ] || continue
  prop=$(python3 -c "import json;print(json.load(open('seeded/$id/meta.json'))['breaks_property'])" 2>/dev/null || echo ${id%%_*})
  patch=
  for f in $(ls -r seeded/$id/patch.after_fix*.diff 2>/dev/null) seeded/$id/patch_rebased.diff seeded/$id/patch.diff; do
    [ -f $f ] && git -C /repo apply --check $HERE/$f 2>/dev/null && { patch=$f; break; }
  done
  if [ -z "$patch" ]; then echo "$id $prop PATCH-DOES-NOT-APPLY"; continue; fi
  out=$(tools/try_mutant.sh $prop $patch 2>&1)
  nv=$(echo "$out" | grep -c "^VIOLATION")
  ni=$(echo "$out" | grep "^VIOLATION" | grep -vc "no-failing-input-found")
  if [ "$nv" -gt 0 ]; then echo "$id $prop DETECTED violations>=$nv with_failing_input=$ni ($(basename $patch))";
  else echo "$id $prop MISSED  $(echo "$out" | grep "^\[$prop\]" | cut -c1-120)"; fi
done
