#!/usr/bin/env python3
"""tools/seed_table.py: markdown table of the seeded changes (seeded/*/meta.json) for DESIGN.md; rewrites the block
between the markers <!-- SEEDED-TABLE-BEGIN --> and <!-- SEEDED-TABLE-END --> in DESIGN.md."""
import json, pathlib, re
root = pathlib.Path(__file__).resolve().parent.parent
rows = []
for d in sorted((root / 'seeded').iterdir()):
    m = d / 'meta.json'
    if not m.exists():
        continue
    j = json.loads(m.read_text())
    first = 'yes'
    if j.get('note', '').startswith('missed'):
        first = 'no — check strengthened'
    det = (j.get('detected_by') or '-') if j.get('detected') else '**not detected**'
    rows.append(f"| {j['id']} | {j['breaks_property']} | {j['needs_to_manifest'].replace('|', '/')} | {det} | {first} |")
table = ['| seeded change | breaks | what it needs in order to manifest | detected by | at first try |', '|---|---|---|---|---|'] + rows
p = root / 'DESIGN.md'
s = p.read_text()
block = '<!-- SEEDED-TABLE-BEGIN -->\n' + '\n'.join(table) + '\n<!-- SEEDED-TABLE-END -->'
if '<!-- SEEDED-TABLE-BEGIN -->' in s:
    s = re.sub(r'<!-- SEEDED-TABLE-BEGIN -->.*?<!-- SEEDED-TABLE-END -->', lambda _: block, s, flags=re.S)
else:
    s += ('\n---------------------------------------------------------------------------------------------\n\n'
          '## 16. Seeded changes: which checks catch which\n\n'
          'Each change was written by a fresh sub-agent that saw only the text of the property and a scratch git worktree of /repo\n'
          '(nothing from /verif). It is kept under `seeded/<id>/` (patch.diff, demo, NOTES.md, meta.json) only after the coordinator confirmed in\n'
          'another scratch worktree that the 370-test suite still passes with it, that the demonstration fails with it and passes without it\n'
          '(`tools/confirm_mutant.sh`), and then ran the registered check against it (`tools/try_mutant.sh`: the patch applied to a scratch copy of\n'
          '/repo selected through VERIF_REPO; the official way is `git -C /repo apply <patch>; ./check Cxx; git -C /repo checkout -- .`).\n'
          'Where a check missed a change it was strengthened (generator or observation, never the verdict logic) and the note in meta.json says how.\n\n'
          + block + '\n')
p.write_text(s)
print(len(rows), 'rows')
