#!/bin/bash
# tools/try_mutant.sh <Cxx> <patch.diff> [more checks...]: apply a seeded change to /repo, run the check(s), undo it.
set -u
P=$1; PATCH=$2; shift 2
cd /repo || exit 2
if [ -n "$(git status --porcelain)" ]; then echo "/repo is not clean"; exit 2; fi
git apply "$PATCH" || { echo "patch does not apply"; exit 2; }
cd /verif
for c in $P "$@"; do
  echo "=== ./check $c (with $PATCH applied)"
  timeout 1800 ./check $c 2>&1 | grep -E "^VIOLATION|^KNOWN-FINDING|^\[$c\]" | cut -c1-260 | head -12
done
git -C /repo checkout -- . && git -C /repo status --porcelain
