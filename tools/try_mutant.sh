#!/bin/bash
# tools/try_mutant.sh <Cxx> <patch.diff> [more checks...]: apply a seeded change to a SCRATCH COPY of /repo
# (so /repo itself is never touched while other work is running) and run the check(s) against the copy
# through VERIF_REPO. The registered commands always use /repo; to reproduce the official way:
#   git -C /repo apply <patch>; ./check Cxx; git -C /repo checkout -- .
set -u
P=$1; PATCH=$(realpath "$2"); shift 2
HERE=$(cd "$(dirname "$0")/.." && pwd)
S=$(mktemp -d /tmp/verif-mutant-repo.XXXXXX)
 git -C /repo archive HEAD | tar -x -C $S || exit 2
( cd $S && git init -q . && git apply "$PATCH" ) || { echo "patch does not apply"; rm -rf $S; exit 2; }
# cargo judges freshness by mtime and the alt target dirs are reused between scratch copies: files restored from the archive carry
# the commit's (old) time stamp and would look unchanged after an earlier mutant modified them - make every source newer than any build
find $S -type f \( -name '*.rs' -o -name 'Cargo.toml' -o -name 'Cargo.lock' \) -exec touch {} +
cd "$HERE"
# one build slot (incremental cargo target dirs build/*-alt<slot>) per concurrent run
for slot in 1 2 3 4 5 6; do exec 9>/tmp/verif-alt-slot-$slot.lock; if flock -n 9; then break; fi; slot=; done
[ -z "$slot" ] && { exec 9>/tmp/verif-alt-slot-1.lock; flock 9; slot=1; }
export VERIF_ALT_TAG=$slot
for c in $P "$@"; do
  echo "=== VERIF_REPO=$S ./check $c   (with $PATCH applied)"
  VERIF_REPO=$S timeout 2400 ./check $c 2>&1 | grep -E "^VIOLATION|^KNOWN-FINDING|^\[$c\]" | cut -c1-240 | grep -v "^KNOWN-FINDING" | head -12
done
rm -rf $S
git checkout -q -- evidence 2>/dev/null || true
