#!/bin/bash
# tools/confirm_mutant.sh <seeded-id>: confirm a seeded change in a scratch git worktree of /repo:
#   (1) it applies and the 370-test baseline still passes with it,
#   (2) seeded/<id>/demo.sh (copied to <worktree>/MUTANT/) FAILS with the change,
#   (3) the demo PASSES without it.
# Prints one summary line; the worktree and its build output are removed afterwards.
set -u
ID=$1
HERE=$(cd "$(dirname "$0")/.." && pwd)
D=$HERE/seeded/$ID
W=$(mktemp -d /tmp/mw_${ID}.XXXXXX); rmdir $W
git -C /repo worktree add -q --detach $W HEAD || exit 2
trap 'git -C /repo worktree remove --force $W; git -C /repo worktree prune' EXIT
export CARGO_TARGET_DIR=$W/target CARGO_NET_OFFLINE=true
mkdir -p $W/MUTANT && cp -r $D/. $W/MUTANT/
# without the change
( cd $W && timeout 1800 bash MUTANT/demo.sh ) > $W/demo_clean.log 2>&1; CLEAN=$?
git -C $W apply $D/patch.diff || { echo "$ID: patch does not apply"; exit 2; }
( cd $W && timeout 3000 cargo nextest run --workspace --no-fail-fast --test-threads 8 --offline ) > $W/suite.log 2>&1; SUITE=$?
SUM=$(grep -E "^\s*Summary" $W/suite.log | tail -1)
( cd $W && timeout 1800 bash MUTANT/demo.sh ) > $W/demo_mut.log 2>&1; MUT=$?
echo "$ID: demo clean exit=$CLEAN  demo mutated exit=$MUT  suite exit=$SUITE  $SUM"
[ $CLEAN -ne 0 ] && tail -15 $W/demo_clean.log
[ $MUT -eq 0 ] && tail -15 $W/demo_mut.log
[ $SUITE -ne 0 ] && grep -E "FAIL|failed" $W/suite.log | head
exit 0
