#!/usr/bin/env python3
"""Writes MANIFEST.json from the table below (kept in one place so it stays valid)."""
import json, pathlib
ROOT = pathlib.Path(__file__).resolve().parent.parent
NOTE_COMMON = ('Trusted: Coq 8.16.1 kernel; the hand-written Gallina model is tied to /repo only by the correspondence check '
               '(differential testing through harness/libdrive and/or the real binary); extraction (ExtrOcamlBasic only) + ocaml/drv_*.ml; '
               'Python generators/extractors. ')
# One file per property under tools/manifest.d/<Cxx>.json with keys text, note, technique, design
# (note may start with "{COMMON}" which expands to NOTE_COMMON). A property is claimed iff its file exists.
CHECKS = {}
for _f in sorted((ROOT / 'tools' / 'manifest.d').glob('C*.json')):
    _c = json.loads(_f.read_text())
    _c['note'] = _c['note'].replace('{COMMON}', NOTE_COMMON)
    CHECKS[_f.stem] = _c
# optional per-property reasons for not claiming: tools/manifest.d/<Cxx>.skip (plain text)
NOT_YET = {f.stem: f.read_text().strip() for f in (ROOT / 'tools' / 'manifest.d').glob('C*.skip')}
def main():
    props = [json.loads(l)['id'] for l in (ROOT / 'properties.jsonl').read_text().splitlines() if l.strip()]
    m = {
      'version': 1,
      'setup_cmd': './check setup',
      'hooks': {'guard': 'typeshare_verif', 'enable': 'RUSTFLAGS="--cfg typeshare_verif" cargo build --offline (set by lib/vf.py for harness and CLI builds)',
                'baseline_off_cmd': 'cd /repo && cargo nextest run --workspace --no-fail-fast --test-threads 8 --offline || cargo test --workspace --no-fail-fast --offline',
                'source_commits': json.loads((ROOT / 'tools' / 'hook_commits.json').read_text()) if (ROOT / 'tools' / 'hook_commits.json').exists() else [],
                'add_only': True},
      'engines': [{'name': 'rocq-model', 'path': 'coq/', 'serves_properties': sorted(CHECKS), 'kind_free_text': 'Coq 8.16.1 development: Model/ (executable Gallina model), Spec/ (oracles), Proofs/, Props/ (theorems), Audit/ (pinned statements); extracted to OCaml and compared with the implementation by checks/*.py'}],
      'checks': [],
      'notes': 'Entry point ./check <Cxx> [--tier quick|thorough]; see DESIGN.md. Properties not yet claimed are listed under not_applicable with the reason "not built yet" until their check runs green.',
      'not_applicable': [],
    }
    for pid in props:
        if pid in CHECKS:
            c = CHECKS[pid]
            m['checks'].append({
              'property_id': pid, 'quick_cmd': f'./check {pid} --tier quick', 'thorough_cmd': f'./check {pid} --tier thorough',
              'evidence_file': f'/verif/evidence/{pid}.json', 'replay_cmd_template': f'./check replay {pid} {{path}}', 'engine': 'rocq-model',
              'level_claimed': {'category': 'proof', 'text': c['text'], 'design_ref': c['design']},
              'level_note': c['note'], 'technique': c['technique']})
        else:
            m['not_applicable'].append({'property_id': pid, 'reason': NOT_YET.get(pid, 'not claimed yet: the model slice, theorems and correspondence check for this property are not built yet (the technique applies; see DESIGN.md §11)')})
    (ROOT / 'MANIFEST.json').write_text(json.dumps(m, indent=1))
if __name__ == '__main__':
    main()
