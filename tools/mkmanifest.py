#!/usr/bin/env python3
"""Writes MANIFEST.json from the table below (kept in one place so it stays valid)."""
import json, pathlib
ROOT = pathlib.Path(__file__).resolve().parent.parent
NOTE_COMMON = ('Trusted: Coq 8.16.1 kernel; the hand-written Gallina model is tied to /repo only by the correspondence check '
               '(differential testing through harness/libdrive and/or the real binary); extraction (ExtrOcamlBasic only) + ocaml/drv_*.ml; '
               'Python generators/extractors. ')
CHECKS = {
 'C16': dict(
    text='Machine-checked theorems (Props/C16.v, closed under the global context): for every Unicode table agreeing with ASCII, every rule '
         'string and every conventional field / variant identifier of any length, the model of rename_all_to_case returns exactly what the '
         'Gallina transliteration of serde_derive case.rs returns; unknown rules leave names unchanged; one refutation witness per finding '
         'class. Tied to the code by a three-way exhaustive comparison (real typeshare / real case.rs / model) over class-representative '
         'strings to length 5 (quick) or 7 (thorough).',
    note=NOTE_COMMON + 'serde_derive case.rs taken from the offline cargo registry. Unicode tables: Section-style parameter (any table agreeing with ASCII).',
    technique='Rocq proof by induction over identifiers + exhaustive three-way differential correspondence',
    design='§11 C16'),
 'C13': dict(
    text='Machine-checked theorems (Props/C13.v, closed under the global context): for cfg predicates of any depth and arity the LIFO stack walk '
         'of TargetOsIterator yields, as a multiset, exactly the OS names of a structural specification, so accept_target_os equals the '
         'documented rule; empty target list filters nothing; predicates naming no OS never exclude; the walk terminates. Tied to the code by '
         'running parser::parse on generated programs with the guard at 8 attachment positions and comparing presence with model and rule.',
    note=NOTE_COMMON + 'syn is not modelled (attribute AST obtained from the same source text by harness/libdrive/src/ast.rs). Domain: nested cfg lists that parse as meta lists.',
    technique='Rocq proof (induction on predicate size, permutation invariance) + differential correspondence through parser::parse',
    design='§11 C13'),
 'C18': dict(
    text='Machine-checked theorems (Props/C18.v): for ALL integers v (hence all u64/i64) construction succeeds exactly when v is in the safe range '
         'and returns v; conversions back, widening From<narrow>, narrowing TryFrom (the `as` cast modelled as explicit wrap-around and shown '
         'to be the identity under the range check), usize saturation, serde JSON round trip and literal rejection (-0, fractions, exponents, '
         'out-of-range) over a model of serde_json number classification; with Flocq: every safe integer converts to binary64 exactly and '
         'injectively, and 2^53, 2^53+1 collapse. Tied to the code by running the real typeshare crate + serde_json on boundary sweeps and '
         'stratified random values and comparing canonical result lines verbatim; node Number.isSafeInteger cross-checks the spec.',
    note=NOTE_COMMON + 'Axioms (Print Assumptions, only in the Flocq/Reals theorems): ClassicalDedekindReals.sig_not_dec, ClassicalDedekindReals.sig_forall_dec, FunctionalExtensionality.functional_extensionality_dep, Classical_Prop.classic - all declared by Coq\'s standard library. serde_json number classification is modelled (Model/Integer.v classify) and validated by the correspondence.',
    technique='Rocq proof (lia over Z, Flocq binary64) + exhaustive boundary sweep / stratified differential correspondence',
    design='§11 C18'),
 'C11': dict(
    text='Machine-checked theorems (Props/C11.v, closed under the global context): toposort_impl (DFS with the early return on a cycle) maps EVERY '
         'in-range graph - cycles, self-loops, duplicates - to a permutation of its nodes without panic and within fuel S n, and on acyclic '
         'graphs puts every node after its dependencies; sort_by_indices computes data[indices[i]] for every permutation (cycle-leader '
         'invariant); hence topsort emits a permutation of the items whenever dependency collection completes. The ordering half is proved '
         'relative to the collected graph (theorem named _partial); that the collected graph contains every declarative reference outside '
         'the recorded finding classes is checked on every generated case by the extracted predicate good_C11, not yet proved. Tied to the '
         'code through the cfg(typeshare_verif) hooks: exhaustive small graphs / permutations, random larger ones, generated item sets.',
    note=NOTE_COMMON + 'Hooks core::verif_hooks::{toposort_impl,sort_by_indices,topsort}. Dependency collection over the `types` map is not structurally recursive: modelled with fuel; fuel exhaustion corresponds to a real stack overflow (finding recorded under C07).',
    technique='Rocq proof (DFS stack invariant, cycle-leader invariant, Permutation) + exhaustive/random differential correspondence via hooks',
    design='§11 C11'),
 'C08': dict(
    text='Machine-checked theorems (Props/C08.v, closed under the global context): a type expression containing u64/i64/usize/isize or a non-empty '
         'tuple anywhere - any depth, through generic arguments, references, arrays, slices, smart pointers - never parses (induction over the '
         'nested type syntax); every annotated item using an unsupported construct in a non-skipped position (bad member / payload / alias / '
         'const / serialized_as type, multi-field tuple struct or variant, serde(flatten), wrong tag/content, non-literal const) fails to '
         'parse outside two recorded finding classes, each with a refutation witness; a skipped member is exactly as if absent. Tied to the '
         'code by planting one construct into generated programs and comparing parser::parse with the model, the extracted Gallina '
         'predicates judging the implementation; exit status / diagnostic / untouched output observed on the real binary.',
    note=NOTE_COMMON + 'syn is not modelled. The process-level half (errors => non-zero exit, no file written) is observed on the real binary; its model lives with C17.',
    technique='Rocq proof (induction over nested type syntax, case analysis of the item parsers) + planted-construct differential correspondence',
    design='§11 C08'),
 'C06': dict(
    text='Machine-checked theorems (Props/C06.v, closed under the global context): in single-file mode, for any number of per-file parse '
         'results and EVERY permutation of their arrival at the collector, the collector fold followed by reconcile_aliases hands the back end '
         'the same four item lists (stable sort of permuted lists with distinct keys is unique; the serde-rename table answers every lookup '
         'identically), all six modelled generators are functions of those lists, hence identical bytes; refutation witness for same-named '
         'items. Real threads and hash seeds, which no model can exhibit, are observed directly: the real binary under all k! arrival orders '
         '(hook) in single- and multi-file mode, and repeated fresh processes under taskset with 1..16 CPUs on trees of 100-300 files; the '
         'identity order is compared byte for byte with the model. Multi-file mode (imports, hash-ordered fallbacks) is exercised, not proved.',
    note=NOTE_COMMON + 'Partial w.r.t. the runtime: thread scheduling and HashMap seeds are sampled. Hook: cli/src/parse.rs TYPESHARE_VERIF_ORDER. The genuine defect found (consts never sorted) was repaired by the fix: commit recorded in KNOWN_FINDINGS.jsonl; the model follows the repaired code.',
    technique='Rocq proof (permutation invariance of fold + stable sort, all arrival orders) + exhaustive arrival-order runs of the real binary via hook + repeated-process sampling',
    design='§11 C06'),
 'C20': dict(
    text='Machine-checked theorems (Props/C20.v, closed under the global context): for EVERY file system, current directory and command line the '
         'generating run of the CLI model (load_config with find_configuration_file, override_configuration, language()) equals a specification '
         'built from effective(cli, file, default): the configuration file is the one named by -c, else the typeshare.toml of the nearest ancestor '
         'directory, else none; swift-prefix, kotlin-prefix, java-package, both module names, scala-package and go-package reach the back-end '
         'record as command line, else file, else default (one theorem per setting); type_mappings, default_decorators, generic constraints, '
         'codablevoid_constraints, uppercase_acronyms and no_pointer_slice pass through unchanged and reach the back end as the file has them; the '
         'only refusal is Go without a package; target_os comes from the command line only. -g: the run equals its specification, store_config '
         'fails exactly when the target exists and then leaves the file system unchanged, touches no other path; under the explicit hypothesis '
         'toml_roundtrip a stored configuration loads back identically on all persisted fields (target_os is #[serde(skip)] and stated as not '
         'persisted), through -c and through discovery, and a later run naming the same location gets the back end of the command line that wrote '
         'the file. Discovery: -c wins (only the named file matters), nearest ancestor, none iff no ancestor has the file, and the '
         'push / is_file / pop-twice loop terminates within depth+1 iterations and equals the structural walk. Tied to the code through the REAL '
         'BINARY: all 1024 joint {absent, present} combinations over the five main settings x 4 languages, random file-only tables x 6 languages, '
         'discovery scenarios (depth 0-3, directory named typeshare.toml, unparsable nearest file, missing -c file), and -g runs whose emitted TOML '
         'is parsed with tomllib, re-run (must fail, bytes identical), reloaded and compared with the direct run.',
    note=NOTE_COMMON + 'toml and clap are NOT modelled: the serialiser/parser are universally quantified functions and the round trip is the explicit hypothesis '
         'toml_roundtrip of the three round-trip theorems (forall c, de (ser c) = Some (persisted c)); it is shown satisfiable (Example C20_nonvacuous) and '
         'validated empirically by the check on every table -g emits and every generated TOML file; the effect of #[serde(default)] (absent table/key = '
         'Default) IS modelled (fill_config). clap: the options record is what the check typed, short/long/= spellings varied. kotlin/scala module_name is '
         'never read by the back ends, so it is observable only through the TOML written by -g. The file system model has files only (no directories, '
         'no `..` normalisation, parent of the -g target exists). Scala panics on an empty package and prints no package line for a dotless package: '
         'the observation distinguishes only {empty, dotless, exact dotted value}. Uses its own result type (cres) because anyhow errors have no '
         'counterpart in Model/Outcome.v.',
    technique='Rocq proof (model = declarative specification for all inputs; structural recursion + fuelled-loop equivalence for discovery) + exhaustive matrix / random differential correspondence through the real binary',
    design='§11 C20'),

 'C17': dict(
    text='Machine-checked theorems (Props/C17.v, closed under the global context) over a model of cli/src/writer.rs (check_write_file: read, compare, skip / '
         'write-if-non-empty; write_single_file; write_multiple_files with the stop at the first failing crate; Swift post_generation / write_codable_file; '
         'parse errors stop before the writer) on an abstract file system with modification times, for ANY initial file system, ANY clock values and run '
         'histories of ANY length: an identical re-run - and any number of them after any history - leaves the file system literally unchanged, bytes and '
         'mtimes (C17_idempotent, C17_idempotent_history); after any history every file the last run is responsible for whose generated bytes are non-empty '
         'holds exactly what a run into an empty location produces (C17_fresh); a closed form says a responsible file is written iff its bytes differ and '
         'the new bytes are non-empty (C17_write_iff_changed); files outside the run\'s reach are untouched (C17_untouched, _history). Swift\'s shared Codable.swift is covered with no '
         'carve-out: an up-to-date file (contents plus the newline) is left untouched, anything else under that name is replaced '
         '(C17_codable_up_to_date_untouched, C17_codable_stale_rewritten; the model follows /repo fix 0622333 - the finding C17-swift-codable-rewritten '
         'this check discovered is now a fixed entry and a regression is a plain violation). One carve-out remains, stated exactly and with the '
         'unrestricted statement refuted by a witness: empty generated output leaves a stale file in place (C17_empty_output_keeps_file, '
         'C17_fresh_refuted; the real tool was never seen to produce an empty output). Tied to the code through the REAL BINARY: histories of up to '
         '6 runs over 2-4 mutated versions of 1-4-crate source trees, -o and -d, six languages, empty and pre-seeded locations, transient parse errors and '
         'generation failures; after every run bytes and last-writer of every file are compared with the model and judged by the extracted Spec predicates.',
    note=NOTE_COMMON + 'The model abstracts the real file system: a finite map path -> (bytes, mtime) with one clock value per run; no directories, permissions, '
         'symlinks, I/O errors or concurrent writers. The generated bytes are taken as given: a run receives the per-crate outputs (observed in a run of the '
         'same sources into an empty location), so C17 says nothing about determinism of generation (C06). Domain: pairwise distinct output paths (dom_C17). '
         'The check observes "written by this run" by setting every file to a fixed old mtime (os.utime) before each run. No libdrive harness is used.',
    technique='Rocq proof (fold of compare-and-write steps, closed form per file, induction over run histories) + differential correspondence through the real binary with mtime observation',
    design='§11 C17'),

}
NOT_YET = {}
def main():
    props = [json.loads(l)['id'] for l in (ROOT / 'properties.jsonl').read_text().splitlines() if l.strip()]
    m = {
      'version': 1,
      'setup_cmd': './check setup',
      'hooks': {'guard': 'typeshare_verif', 'enable': 'RUSTFLAGS="--cfg typeshare_verif" cargo build --offline (set by lib/vf.py for harness and CLI builds)',
                'baseline_off_cmd': 'cd /repo && cargo nextest run --workspace --no-fail-fast --test-threads 8 --offline || cargo test --workspace --no-fail-fast --offline',
                'source_commits': json.loads((ROOT / 'tools' / 'hook_commits.json').read_text()) if (ROOT / 'tools' / 'hook_commits.json').exists() else [],
                'add_only': True},
      'engines': [{'name': 'rocq-model', 'path': 'coq/', 'serves_properties': sorted(CHECKS), 'kind_free_text': 'Coq 8.16.1 development: Model/ (executable Gallina model), Spec/ (oracles), Proofs/, Props/ (theorems), Audit/ (pinned statements); extracted to OCaml and compared with the implementation by checks/*.py'}],
      'checks': [],
      'notes': 'Entry point ./check <Cxx> [--tier quick|thorough]; see DESIGN.md. Properties not yet claimed are listed under not_applicable with the reason "not built yet" until their check runs green.',
      'not_applicable': [],
    }
    for pid in props:
        if pid in CHECKS:
            c = CHECKS[pid]
            m['checks'].append({
              'property_id': pid, 'quick_cmd': f'./check {pid} --tier quick', 'thorough_cmd': f'./check {pid} --tier thorough',
              'evidence_file': f'/verif/evidence/{pid}.json', 'replay_cmd_template': f'./check replay {pid} {{path}}', 'engine': 'rocq-model',
              'level_claimed': {'category': 'proof', 'text': c['text'], 'design_ref': c['design']},
              'level_note': c['note'], 'technique': c['technique']})
        else:
            m['not_applicable'].append({'property_id': pid, 'reason': NOT_YET.get(pid, 'not claimed yet: the model slice, theorems and correspondence check for this property are not built yet (the technique applies; see DESIGN.md §11)')})
    (ROOT / 'MANIFEST.json').write_text(json.dumps(m, indent=1))
if __name__ == '__main__':
    main()
