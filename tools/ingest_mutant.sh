#!/bin/bash
# tools/ingest_mutant.sh <seeded-id> <check> [more checks]: take MUTANT/ from the seeder's scratch worktree
# /tmp/mut_<id>, store it as seeded/<id>/, remove the worktree, confirm the three claims in a fresh scratch
# worktree (tools/confirm_mutant.sh) and run the check(s) against it (tools/try_mutant.sh).
set -u
ID=$1; shift
HERE=$(cd "$(dirname "$0")/.." && pwd)
W=/tmp/mut_$ID
if [ -d $W/MUTANT ]; then
  mkdir -p $HERE/seeded/$ID && cp -r $W/MUTANT/. $HERE/seeded/$ID/
  rm -rf $HERE/seeded/$ID/target $HERE/seeded/$ID/demo_tmp
  git -C /repo worktree remove --force $W; git -C /repo worktree prune
fi
$HERE/tools/confirm_mutant.sh $ID 2>&1 | tail -12
$HERE/tools/try_mutant.sh "$1" $HERE/seeded/$ID/patch.diff "${@:2}" 2>&1 | tail -12
