#!/usr/bin/env python3
"""tools/seed_meta.py <id> <property> <checks run> <detected yes/no> <needs...>: write seeded/<id>/meta.json"""
import json, sys, pathlib, subprocess
sid, prop, checks, detected = sys.argv[1:5]
needs = ' '.join(sys.argv[5:])
d = pathlib.Path('/verif/seeded') / sid
notes = (d / 'NOTES.md').read_text() if (d / 'NOTES.md').exists() else ''
meta = {'id': sid, 'breaks_property': prop, 'needs_to_manifest': needs,
        'confirmed': 'applied patch.diff in a scratch worktree of /repo: full test suite 370/370 passes with the change; demo fails with the change and passes without it (see NOTES.md)',
        'ran': f'tools/try_mutant.sh {checks} seeded/{sid}/patch.diff  (git -C /repo apply; ./check; git -C /repo checkout -- .)',
        'detected_by': checks if detected == 'yes' else None, 'detected': detected == 'yes'}
(d / 'meta.json').write_text(json.dumps(meta, indent=1))
print('wrote', d / 'meta.json')
