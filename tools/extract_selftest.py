#!/usr/bin/env python3
"""Self-test of lib/extract.py against the REAL typeshare back ends.

   tools/extract_selftest.py [--seed S] [--progs N] [--ir N] [--lang L] [-v]

For each of the six languages it runs
  (a) all snapshot inputs of /repo/core/data/tests (and extracts the stored output.* files as well),
  (b) N (default 480) programs of lib/progs.py: half with the default Profile, half with a profile that
      renames types (p_rename_type=0.3), plants dashes in renamed keys and uses more generics,
  (c) N (default 480) item sets of lib/irgen.py,
  (d) robustness material: item sets whose doc comments carry newlines, `*/`, `\"\"\"`, back-ticks ...
      and randomly damaged outputs (the extractor must not raise and must account for every line),
  (e) hand-made item sets for behaviours (a)-(c) rarely reach (names that need escaping, keywords,
      type overrides, colliding names),
through back.run_src / back.run_ir, takes the text the real tool printed, extracts it with
lib/extract.py and compares the observation with the IR ground truth (the `ir` dump of run_src, the
item set itself for run_ir):

  * the same number of struct / enum / alias / const definitions (plus, outside TypeScript, one helper
    struct `<Enum><Variant>Inner` per struct variant), every definition found under its expected name,
  * per struct: member count and order, member names, wire_key == field.id.renamed (Scala: the name is
    renamed with '-' -> '_'), optional == (type is Option || has_default), generics,
  * per enum: variant count and order, wire_name == variant.id.renamed (every spelled-out occurrence),
    payload kind, inner struct, parent, all tag_keys / content_keys equal to the IR's keys (and as many
    occurrences as the template prints),
  * the identifiers in type positions (references) are the identifiers of the IR type trees,
  * helper_uses is covered by helper_defs, `unparsed` and `anomalies` are empty.

A disagreement whose category is listed in KNOWN below is a genuine behaviour of the real tool (each
entry says which); everything else is a defect of the extractor (or an unknown behaviour of the tool)
and makes the self-test exit 1.
"""
import sys, glob, json, random, pathlib, collections, copy, re
sys.path.insert(0, str(pathlib.Path(__file__).resolve().parent.parent / 'lib'))
import vf, back, progs, irgen, ir as IR, extract

LANGS = list(extract.LANGS)
# core/src/language/swift.rs:24
SWIFT_KEYWORDS = set('''associatedtype class deinit enum extension fileprivate func import init inout internal let operator private protocol public
rethrows static struct subscript typealias var break case continue default defer do else fallthrough for guard if in repeat return switch where
while as Any catch false is nil super self Self throw throws true try Protocol Type'''.split())

# ---------------------------------------------------------------------------------------------------
# Genuine behaviours of the real tool that make its text deviate from the IR ground truth.
# (category -> what the tool does).  Found by this self-test; they are reported, never hidden.
# ---------------------------------------------------------------------------------------------------
KNOWN = {
    # scala.rs write_element: a non-Option field with #[serde(default)] is printed `name: T = _` - no Option[..],
    # no `= None`: the optional marker is missing (and `= _` is not legal in a case class parameter list).
    'scala_default_underscore_not_optional': 'Scala prints `T = _` for has_default non-Option fields: no optional marker',
    # kotlin.rs write_type_alias: `typealias {prefix}{id.original}` - a serde(rename) on the alias is ignored
    # (the @JvmInline value class form uses id.renamed).
    'kotlin_alias_declared_under_original_name': 'Kotlin `typealias` is declared under id.original, not id.renamed',
    # scala.rs write_type_alias: `type {id.original}`.
    'scala_alias_declared_under_original_name': 'Scala `type` alias is declared under id.original, not id.renamed',
    # go.rs write_type_alias / write_enum: `type {id.original} ..` for aliases and both enum forms.
    'go_alias_declared_under_original_name': 'Go alias is declared under id.original, not id.renamed',
    'go_enum_declared_under_original_name': 'Go enums (both forms) are declared under id.original, not id.renamed',
    # kotlin.rs / scala.rs write_enum_variants: `: {prefix}{enum.id.original}()` / `extends {enum.id.original}` although the
    # sealed class / trait is declared under id.renamed.
    'kotlin_variant_parent_is_original_name': 'Kotlin variant classes extend {enum original name}, the sealed class is declared under the renamed name',
    'scala_variant_parent_is_original_name': 'Scala variant classes extend {enum original name}, the trait is declared under the renamed name',
    # kotlin.rs / scala.rs: struct variants refer to `{enum.id.original}{variant}Inner`, the helper struct is declared as
    # `{enum.id.renamed}{variant}Inner` (write_enum's make_struct_name): the reference dangles for a renamed enum.
    'kotlin_inner_reference_uses_original_enum_name': 'Kotlin struct variant refers to {original}{V}Inner, declared is {renamed}{V}Inner',
    'scala_inner_reference_uses_original_enum_name': 'Scala struct variant refers to {original}{V}Inner, declared is {renamed}{V}Inner',
    # go.rs make_anonymous_struct_name uses enum id.original: the helper struct is `{original}{V}Inner` (consistent with the Go
    # enum name, which is the original one too) - differs from the other four languages.
    'go_inner_struct_named_after_original_enum_name': 'Go names the helper struct {enum original}{V}Inner',
    # scala.rs before the /repo fixes 17 and 30: begin_package/begin_package_object printed nothing for a package name without '.',
    # end_package* always printed `}`.  Since fix 30 all four print for every name (`package object p {` .. `}` / `package p {` .. `}`):
    # the category cannot occur on the current tree, it is kept so that a regression is named.
    'scala_package_closer_without_opener': 'Scala prints the closing `}` of `package x {` / `package object x {` even when the opener is not printed (package without dot)',
    # scala.rs generate_types never looks at consts.
    'scala_consts_dropped': 'Scala silently drops constants',
    # swift.rs write_struct: with a `#[typeshare(swift(type = ".."))]` override the `?` of an Option field is lost
    # (the `?` comes from format_type, which is bypassed; only has_default && !Option adds one).
    'swift_type_override_drops_optional_marker': 'Swift type override on an Option field prints no `?`',
    # kotlin.rs / scala.rs write_element: same bypass - the type loses its `?` / `Option[..]` but ` = null` / ` = None` is still printed.
    'kotlin_type_override_not_nullable_but_default_null': 'Kotlin type override on an Option field prints `T = null` without `?`',
    'scala_type_override_default_none_without_option': 'Scala type override on an Option field prints `T = None` without Option[..]',
    # go.rs write_field: the override replaces the formatted type; Option adds no `*` then (only has_default && !Option does).
    'go_type_override_drops_pointer': 'Go type override on an Option field prints no `*` (omitempty stays)',
    # typescript.rs: a tuple variant of type Option<()> prints `content?: undefined`, the very text of a unit variant.
    'typescript_option_unit_payload_is_printed_like_unit_variant': 'TS `V(Option<()>)` prints `content?: undefined` like a unit variant',
    # python.rs write_algebraic_enum: the member name in `{Enum}Types` is to_case(Snake).to_uppercase() of the RENAMED variant name;
    # two variants can collide (e.g. "a" and "A"), the variant classes then refer to the same member.
    'python_types_member_collision': 'Python {Enum}Types member names collide for variants whose renamed names differ only in case/separators',
    # go.rs write_enum: variant payload types are formatted with an empty generics list and the enum struct declares no type
    # parameters: a generic parameter is printed like a user type.
    'go_enum_generic_parameter_printed_as_type': 'Go enum drops its generic parameters: `T` appears as an undeclared type',
    'go_alias_generic_parameter_printed_as_type': 'Go alias drops its generic parameters: `T` appears as an undeclared type',
    # go.rs write_type_alias prints format_type(..) as is; write_field / write_enum pass the type text through
    # acronyms_to_uppercase: with uppercase_acronyms=["ID"] `type Baz UserId` refers to the struct declared as `UserID`.
    'go_alias_target_skips_acronym_conversion': 'Go alias target is not passed through uppercase_acronyms (declared UserID, referenced UserId)',
    # python.rs write_variant_class: variant classes of a generic enum are plain BaseModel classes and the union alias has no
    # parameters, the TypeVar is only declared at module level.
    'python_enum_generics_not_declared': 'Python generic enum: variant classes / union do not declare Generic[..]',
    # kotlin.rs: JvmInline is used but never imported (kotlin.jvm.JvmInline is not a default import on all targets); with an
    # empty package no import lines are printed at all.
    'kotlin_helper_used_but_not_imported': 'Kotlin uses @Serializable/@SerialName/@JvmInline without import (empty package: no header; JvmInline: never)',
    # kotlin.rs / scala.rs write_struct: a struct without fields is printed `object N` / `class N extends Serializable` - the
    # generic parameters of the Rust struct are not printed (references `N<A, B>` elsewhere keep their arguments).
    'kotlin_empty_struct_drops_generics': 'Kotlin `object N` for a field-less generic struct has no type parameters',
    'scala_empty_struct_drops_generics': 'Scala `class N extends Serializable` for a field-less generic struct has no type parameters',
    # scala.rs unsigned_integer_used looks one level below the top of each type only (and not inside Array/Slice):
    # `Option<Option<u32>>`, `Vec<Vec<u8>>`, `[u8; 4]` ... use UByte/UShort/UInt/ULong without the aliases being printed.
    'scala_unsigned_aliases_used_but_not_defined': 'Scala uses UByte/UShort/UInt/ULong without printing their aliases (shallow scan)',
    # (repaired in /repo: write_field registers the unwrapped type; the entry only classifies the unrepaired tree)
    # python.rs write_field: for a has_default field whose type is datetime/bytes the set of translation types receives
    # "Optional[datetime]" instead of "datetime": json_translation_for_type finds nothing, the helper functions are not
    # printed although BeforeValidator(parse_rfc3339) ... refers to them.
    'python_translation_functions_used_but_not_defined': 'Python refers to parse_rfc3339/serialize_datetime_data/... without printing them (has_default datetime/bytes field)',
    # Names are spliced into string literals without escaping in these places (the `{:?}` places are fine):
    # kotlin.rs algebraic variants `@SerialName("{}")`, swift.rs CodingKeys `name = "{}"` (struct fields and algebraic
    # variants), python.rs `alias="{}"` and the `{Enum}Types` members `KEY = "{}"`: a quote in a renamed name ends the literal
    # early - the text is syntactically damaged and the extractor reports the lines it cannot place.
    'kotlin_algebraic_serial_name_not_escaped': 'Kotlin @SerialName("..") of algebraic variants is printed without escaping',
    'swift_coding_key_raw_value_not_escaped': 'Swift CodingKeys raw values are printed without escaping',
    'python_alias_and_types_value_not_escaped': 'Python alias="..." / {Enum}Types values are printed without escaping',
    # typescript.rs typescript_property_aware_rename quotes a property only when it contains '-'; swift/kotlin/scala only map
    # '-' to '_': any other non-identifier character of a renamed field lands in the declaration as is.
    'field_name_not_an_identifier_printed_raw': 'renamed field names with non-identifier characters (other than -) are printed raw',
    # swift.rs unit enum: `case {camelCase(original)}`; two variants can collapse to one case name - not an extractor matter,
    # python.rs unit enum: `{ORIGINAL.upper()}`; recorded only if seen.
    # typescript.rs write_field: only '-' triggers quoting of the property name.
}

EXT = {'typescript': 'ts', 'kotlin': 'kt', 'swift': 'swift', 'scala': 'scala', 'go': 'go', 'python': 'py'}
DECLANG = {'typescript': 'TypeScript', 'kotlin': 'Kotlin', 'swift': 'Swift', 'scala': 'Scala', 'go': 'Go', 'python': 'Python'}


def cfgs_for(lang):
    """configurations every part cycles through (the last of each list switches the version header on and uses the
    language's other options)"""
    return {'typescript': [{}, {'no_version_header': False, 'type_mappings': {'Foo': 'MappedFoo'}}],
            'kotlin': [{'package': 'p'}, {'package': 'com.agilebits.onepassword', 'prefix': 'OP'}, {'prefix': 'Core'},
                       {'package': 'com.x', 'module_name': 'm', 'no_version_header': False, 'type_mappings': {'Foo': 'MappedFoo'}}],
            'swift': [{}, {'prefix': 'OP'},
                      {'prefix': 'Core', 'no_version_header': False, 'default_decorators': ['Sendable', 'Identifiable'],
                       'default_generic_constraints': ['Sendable', 'Equatable & Hashable'], 'codablevoid_constraints': ['Equatable']}],
            'scala': [{'package': 'p'}, {'package': 'com.agilebits.onepassword'}, {'package': 'com.x.y', 'no_version_header': False}],
            'go': [{'package': 'p'}, {'package': 'proto', 'no_version_header': False, 'uppercase_acronyms': ['ID', 'url'], 'no_pointer_slice': True}],
            'python': [{}, {'no_version_header': False}]}[lang]


def pascal(s):
    low = s.upper() == s
    out, cap = [], True
    for ch in s:
        if ch == '_':
            cap = True
        elif cap:
            out.append(ch.upper())
            cap = False
        else:
            out.append(ch.lower() if low else ch)
    return ''.join(out)


def acronyms(name, acrs):
    """go.rs convert_acronyms_to_uppercase"""
    res = name
    for a in acrs:
        pa = pascal(a)
        if not pa:
            continue
        i = name.find(pa)
        while i != -1:
            nxt = name[i + len(pa)] if i + len(pa) < len(name) else None
            if nxt is None or not nxt.islower():
                res = res[:i] + pa.upper() + res[i + len(pa):]
            i = name.find(pa, i + len(pa))
    return res


# ---------------------------------------------------------------------------------------------------
# IR helpers (declarative; nothing here calls the generators or the extractor)
# ---------------------------------------------------------------------------------------------------
def is_opt(t):
    return t['k'] == 'special' and t['name'] == 'Option'


def override(f, lang):
    for l, ds in f.get('decorators') or []:
        if l == DECLANG[lang]:
            for d in ds:
                if d.get('name') == 'type':
                    return d['value']
    return None


def has_word(f, lang, word):
    return any(l == DECLANG[lang] and any(d.get('word') == word or d.get('name') == word for d in ds) for l, ds in f.get('decorators') or [])


def type_names(lang, t, mappings=None):
    """user identifiers a type tree prints in `lang` (order of appearance, duplicates kept); a mapped name is returned
    as ('mapped', text)"""
    mappings = mappings or {}
    k = t['k']
    if k == 'simple':
        return [('mapped', mappings[t['id']])] if t['id'] in mappings else [t['id']]
    if k == 'generic':
        if t['id'] in mappings:
            return [('mapped', mappings[t['id']])]
        return [t['id']] + [x for p in t['params'] for x in type_names(lang, p, mappings)]
    if t['name'] == 'Array' and lang == 'typescript':
        return [x for p in t['params'] for x in type_names(lang, p, mappings)] * t.get('len', 1)
    return [x for p in t['params'] for x in type_names(lang, p, mappings)]


def contains_unit_option(t):
    """Option<()>, Option<Option<()>> ...: TypeScript prints the inner type of an Option, i.e. `undefined`"""
    if not is_opt(t):
        return False
    while is_opt(t):
        t = t['params'][0]
    return t['k'] == 'special' and t['name'] == 'Unit'


def inner_generics(e, v):
    out = []
    for f in v['fields']:
        ids = IR.type_ids(f['ty'])
        for g in e['generics']:
            if g in ids and g not in out:
                out.append(g)
    return out


# ---------------------------------------------------------------------------------------------------
# comparison of one observation with its ground truth
# ---------------------------------------------------------------------------------------------------
class Cmp:
    def __init__(self, lang, cfg, truth, obs, tag):
        self.lang, self.cfg, self.t, self.o, self.tag = lang, cfg, truth, obs, tag
        self.prefix = cfg.get('prefix', '') if lang in ('kotlin', 'swift') else ''
        self.acrs = cfg.get('uppercase_acronyms', []) if lang == 'go' else []
        self.mappings = cfg.get('type_mappings', {})
        self.findings = []       # (category, detail)
        self.checks = 0
        self.defs = collections.defaultdict(list)
        for d in obs['definitions']:
            self.defs[(d['kind'], d['name'])].append(d)
        self.claimed = set()

    def f(self, cat, detail):
        self.findings.append((cat, f'{detail}   [{self.tag}]'))

    def eq(self, cat, a, b, what):
        self.checks += 1
        if a != b:
            self.f(cat, f'{what}: extracted {a!r}, ground truth {b!r}')
            return False
        return True

    def find(self, kind, idd, what, original_cat=None, prefix=None):
        prefix = self.prefix if prefix is None else prefix
        want = acronyms(prefix + idd['renamed'], self.acrs)
        c = self.defs.get((kind, want))
        self.checks += 1
        if not c and idd['original'] != idd['renamed']:
            c = self.defs.get((kind, acronyms(prefix + idd['original'], self.acrs)))
            if c:
                self.f(original_cat or 'definition_under_original_name', f'{what} {want} is declared as {prefix + idd["original"]}')
        if not c:
            self.f('definition_missing', f'{kind} {want} not found among {sorted(n for k, n in self.defs if k == kind)}')
            return None
        for d in c:
            if id(d) not in self.claimed:
                self.claimed.add(id(d))
                return d
        self.f('definition_missing', f'{kind} {want}: every definition of that name is already matched')
        return None

    # ---- members ------------------------------------------------------------------------------
    def members(self, owner, mems, fields, generics, refs_filter):
        lang = self.lang
        if not self.eq('member_count', len(mems), len(fields), f'{owner}: number of members'):
            return
        kt_serial = any('-' in f['id']['renamed'] for f in fields)
        for m, f in zip(mems, fields):
            w = f'{owner}.{f["id"]["original"]}'
            ren = f['id']['renamed']
            ov = override(f, lang) if lang != 'python' else None
            # name
            if lang == 'typescript':
                self.eq('member_name', m['name'], ren, w + ' name')
                self.eq('member_binding', m['key_binding'], 'quoted' if '-' in ren else 'name', w + ' key binding')
                self.eq('member_readonly', m.get('readonly'), has_word(f, lang, 'readonly'), w + ' readonly')
            elif lang in ('kotlin', 'swift', 'scala'):
                self.eq('member_name', m['name'], ren.replace('-', '_'), w + ' name')
            # wire key
            if lang == 'scala':
                self.eq('member_binding', m['key_binding'], 'name', w + ' key binding')
            else:
                self.eq('wire_key', m['wire_key'], ren, w + ' wire key')
                if lang == 'kotlin':
                    self.eq('member_binding', m['key_binding'], 'serial_name' if kt_serial else 'name', w + ' key binding')
                if lang == 'swift':
                    self.eq('member_binding', m['key_binding'], 'coding_key' if kt_serial else 'name', w + ' key binding')
                if lang == 'go':
                    self.eq('member_binding', m['key_binding'], 'json_tag', w + ' key binding')
                if lang == 'python':
                    self.eq('member_binding', m['key_binding'] == 'alias', m['name'] != ren, w + ' alias present iff the name differs')
            # a name that is no identifier is flagged (and is a behaviour of the tool when it is printed raw)
            if lang in ('typescript', 'kotlin', 'swift', 'scala'):
                plain = bool(re.fullmatch(r'[^\W\d]\w*', ren.replace('-', '_') if lang != 'typescript' else ren))
                self.eq('ident_ok', m['ident_ok'], plain, w + ' ident_ok')
                if not m['ident_ok'] and m['key_binding'] != 'quoted':
                    self.f('field_name_not_an_identifier_printed_raw', f'{w}: `{m["name"]}`')
            # optional
            opt_t, dflt = is_opt(f['ty']), f.get('has_default', False)
            want = opt_t or dflt
            self.checks += 1
            det = m['optional_detail']
            if m['optional'] != want:
                if lang == 'scala' and dflt and not opt_t and det.get('default_underscore'):
                    self.f('scala_default_underscore_not_optional', f'{w}: `{m["type_raw"]} = {m["default"]}`')
                elif lang == 'swift' and ov is not None and opt_t:
                    self.f('swift_type_override_drops_optional_marker', f'{w}: `{m["type_raw"]}` for an Option field')
                else:
                    self.f('optional', f'{w}: extracted optional={m["optional"]} {det}, ground truth {want} (Option={opt_t}, default={dflt}); text `{m["type_raw"]}`')
            elif want:
                # all parts of the marker present?
                if lang == 'kotlin' and not (det['nullable'] and det['default_null']):
                    self.f('kotlin_type_override_not_nullable_but_default_null' if ov is not None and opt_t else 'optional_partial', f'{w}: {det} `{m["type_raw"]}`')
                if lang == 'scala' and not (det['option_type'] and det['default_none']):
                    self.f('scala_type_override_default_none_without_option' if ov is not None and opt_t else 'optional_partial', f'{w}: {det} `{m["type_raw"]}`')
                noptr = lang == 'go' and self.cfg.get('no_pointer_slice') and opt_t and f['ty']['params'][0]['k'] == 'special' and \
                    f['ty']['params'][0]['name'] == 'Vec'      # configured: Option<Vec<T>> is printed []T
                if lang == 'go' and noptr:
                    self.eq('go_no_pointer_slice', (det['pointer'], det['omitempty']), (False, True), w + ' no_pointer_slice')
                elif lang == 'go' and not (det['pointer'] and det['omitempty']):
                    self.f('go_type_override_drops_pointer' if ov is not None and opt_t else 'optional_partial', f'{w}: {det} `{m["type_raw"]}`')
                if lang == 'python' and not (det['optional_type'] and det['default_none']):
                    self.f('optional_partial', f'{w}: {det} `{m["type_raw"]}`')
            if lang == 'typescript':
                dbl = opt_t and is_opt(f['ty']['params'][0])
                self.eq('ts_null_union', det['null_union'], dbl, w + ' `| null` (double option)')
            # the type text is a non-empty expression without the marker
            self.checks += 1
            if not m['type'] or m['type'] != m['type'].strip():
                self.f('member_type_text', f'{w}: type text {m["type"]!r}')
            # override: the text is the override
            if ov is not None and lang != 'python':
                self.eq('member_type_override', m['type'], ov if lang != 'go' else ov, w + ' overridden type')
            else:
                self.refs(w, refs_filter(m), f['ty'], generics)
            # docs
            self.docs(w, m['docs'], f.get('comments', []))

    def docs(self, w, got, want):
        lang = self.lang
        want = list(want)
        if lang == 'swift':
            want = [c.rstrip() for c in want]       # swift.rs write_comment trims the end
        got = list(got)
        if any('\n' in c or '\r' in c for c in want):
            return                                   # only in the robustness part
        self.eq('docs', got, want, w + ' docs')

    def refs(self, w, got, ty, generics):
        lang = self.lang
        want = []
        for n in type_names(lang, ty, self.mappings):
            if isinstance(n, tuple):
                want.append((n[1], False))
                continue
            gp = n in generics
            nm = n if gp or lang not in ('kotlin', 'swift') else self.prefix + n
            want.append((acronyms(nm, self.acrs), gp))
        g = sorted(set((r['name'], r['generic_param']) for r in got))
        self.checks += 1
        if g != sorted(set(want)):
            self.f('references', f'{w}: extracted references {g}, ground truth {sorted(set(want))}')

    # ---- whole observation --------------------------------------------------------------------
    def run(self):
        lang, t, o = self.lang, self.t, self.o
        P = self.prefix
        R = o['references']
        for u in o['unparsed']:
            self.f('unparsed', u)
        for a in o['anomalies']:
            if lang == 'scala' and 'package closer without opener' in a and '.' not in self.cfg.get('package', ''):
                self.f('scala_package_closer_without_opener', a)
            else:
                self.f('anomaly', a)
        self.checks += 2
        # ---- structs
        for s in t['structs']:
            d = self.find('struct', s['id'], 'struct')
            if d is None:
                continue
            nm = d['name']
            if lang in ('kotlin', 'scala') and not s['fields'] and s['generics'] and not d['generics']:
                self.f(f'{lang}_empty_struct_drops_generics', f'struct {nm}: ground truth {s["generics"]}')
            else:
                self.eq('generics', d['generics'], s['generics'], f'struct {nm} generics')
            self.docs(f'struct {nm}', d['docs'], s.get('comments', []))
            self.members(nm, d['members'], s['fields'], s['generics'],
                         lambda m, nm=nm: [r for r in R if r['in'] == nm and r['outer'] == 'field' and r.get('member') == m['name']])
        # ---- aliases
        for a in t['aliases']:
            cat = {'kotlin': 'kotlin_alias_declared_under_original_name', 'scala': 'scala_alias_declared_under_original_name',
                   'go': 'go_alias_declared_under_original_name'}.get(lang)
            inline = lang == 'kotlin' and any(k == 'Kotlin' and 'JvmInline' in v for k, v in a.get('decorators') or [])
            if lang in ('kotlin', 'scala', 'go') and not inline:
                # these three print id.original: look the definition up there, report when that differs from the renamed name
                d = self.find('alias', {'original': a['id']['renamed'], 'renamed': a['id']['original']}, 'alias')
                if d is not None and a['id']['original'] != a['id']['renamed']:
                    self.f(cat, f'alias {P + a["id"]["renamed"]} is declared as {d["name"]}')
            else:
                d = self.find('alias', a['id'], 'alias')
            if d is None:
                continue
            nm = d['name']
            gens = a['generics'] if lang != 'go' and not inline else []
            if lang == 'python' and d.get('form') != 'subscript':
                # `N = List[T]` (python.rs write_type_alias since its repair): the parameters are spelled only in the target;
                # the extractor reports the declared TypeVars the target mentions, in order of first occurrence
                seen = []
                for x in IR.type_ids(a['ty']):
                    if x in a['generics'] and x not in seen:
                        seen.append(x)
                gens = seen
            self.eq('generics', d['generics'], gens, f'alias {nm} generics')
            self.docs(f'alias {nm}', d['docs'], a.get('comments', []))
            self.eq('alias_inline', bool(d.get('inline')), inline, f'alias {nm} inline value class')
            self.checks += 1
            if not d['type']:
                self.f('alias_type_text', f'alias {nm}: empty type text')
            got = [r for r in R if r['in'] == nm and r['outer'] == 'alias']
            if lang == 'go' and any(g in IR.type_ids(a['ty']) for g in a['generics']):
                self.f('go_alias_generic_parameter_printed_as_type', f'alias {nm}: {d["type"]}')
            elif lang == 'go' and self.acrs and any(acronyms(n, self.acrs) != n for n in IR.type_ids(a['ty'])):
                saved, self.acrs = self.acrs, []
                self.refs(f'alias {nm}', got, a['ty'], [])          # the names as they are without conversion
                self.acrs = saved
                self.f('go_alias_target_skips_acronym_conversion', f'alias {nm}: {d["type"]}')
            else:
                self.refs(f'alias {nm}', got, a['ty'], gens if not inline else [])
            if lang == 'typescript':
                self.eq('alias_optional', d.get('optional'), is_opt(a['ty']), f'alias {nm} `| undefined`')
                self.eq('ts_null_union', (d.get('optional_detail') or {}).get('null_union'), is_opt(a['ty']) and is_opt(a['ty']['params'][0]),
                        f'alias {nm} `| null` (double option)')
        # ---- enums
        n_inner = 0
        for e in t['enums']:
            d = self.find('enum', e['id'], 'enum', 'go_enum_declared_under_original_name') if lang != 'go' else \
                self.find('enum', {'original': e['id']['renamed'], 'renamed': e['id']['original']}, 'enum')
            if lang == 'go' and d is not None and e['id']['original'] != e['id']['renamed']:
                self.f('go_enum_declared_under_original_name', f'enum {e["id"]["renamed"]} is declared as {d["name"]}')
            if d is None:
                n_inner += sum(1 for v in e['variants'] if v['k'] == 'struct')
                continue
            nm = d['name']
            alg = e['algebraic']
            if lang != 'scala':
                self.eq('enum_algebraic', bool(d.get('algebraic')), alg, f'enum {nm} algebraic')
            gens = e['generics'] if lang not in ('go', 'python') else []
            self.eq('generics', d['generics'], gens, f'enum {nm} generics')
            self.docs(f'enum {nm}', d['docs'], e.get('comments', []))
            vs = d['variants']
            if not self.eq('variant_count', len(vs), len(e['variants']), f'enum {nm}: number of variants'):
                n_inner += sum(1 for v in e['variants'] if v['k'] == 'struct')
                continue
            enum_generics = e['generics']
            pykeys = collections.Counter(v.get('types_key') for v in vs) if lang == 'python' and alg else {}
            for ov, v in zip(vs, e['variants']):
                w = f'{nm}::{v["id"]["original"]}'
                ren = v['id']['renamed']
                collided = lang == 'python' and alg and pykeys[ov.get('types_key')] > 1
                if collided:
                    self.f('python_types_member_collision', f'{w}: member {ov.get("types_key")} used by {pykeys[ov.get("types_key")]} variants')
                else:
                    self.eq('wire_name', ov['wire_name'], ren, w + ' wire name')
                    self.checks += 1
                    if any(x != ren for x in ov['wire_names']):
                        self.f('wire_name', f'{w}: spelled-out names {ov["wire_names"]}, ground truth {ren!r}')
                self.docs(w, ov['docs'], v.get('comments', []))
                kind = {'unit': 'unit', 'tuple': 'newtype', 'struct': 'struct'}[v['k']]
                renamed_enum = e['id']['original'] != e['id']['renamed']
                if v['k'] == 'struct':
                    n_inner += 1
                if not alg:
                    self.eq('payload', ov['payload'], 'unit', w + ' payload')
                    if lang in ('kotlin', 'scala'):
                        self.eq('parent', ov['parent'], nm, w + ' parent')
                    continue
                # parent (Kotlin / Scala)
                if lang in ('kotlin', 'scala'):
                    self.checks += 1
                    if ov['parent'] != nm:
                        if renamed_enum and ov['parent'] == P + e['id']['original']:
                            self.f(f'{lang}_variant_parent_is_original_name', f'{w}: extends {ov["parent"]}, declared {nm}')
                        else:
                            self.f('parent', f'{w}: parent {ov["parent"]!r}, enum {nm!r}')
                    self.eq('parent_generics', ov.get('parent_generics'), e['generics'], w + ' parent generics')
                # payload
                got_payload = ov['payload']
                if kind == 'struct' and lang != 'typescript':
                    inner_name = {'kotlin': P + e['id']['renamed'], 'swift': P + e['id']['renamed'], 'scala': e['id']['renamed'],
                                  'go': e['id']['original'], 'python': e['id']['renamed']}[lang] + v['id']['original'] + 'Inner'
                    inner_name = acronyms(inner_name, self.acrs)
                    if lang == 'go' and renamed_enum:
                        self.f('go_inner_struct_named_after_original_enum_name', f'{w}: helper struct {inner_name}')
                    di = self.defs.get(('struct', inner_name))
                    di = next((x for x in (di or []) if id(x) not in self.claimed), None)
                    self.checks += 1
                    if di is None:
                        self.f('inner_struct_missing', f'{w}: struct {inner_name} not found')
                    else:
                        self.claimed.add(id(di))
                        self.eq('inner_of', di.get('inner_of'), (e['id']['original'], v['id']['original']), f'{inner_name} inner_of')
                        self.eq('generics', di['generics'], inner_generics(e, v), f'{inner_name} generics')
                        self.members(inner_name, di['members'], v['fields'], enum_generics,
                                     lambda m, n=inner_name: [r for r in R if r['in'] == n and r['outer'] == 'field' and r.get('member') == m['name']])
                    if lang in ('kotlin', 'scala') and renamed_enum and got_payload == 'newtype' and \
                            ov['type'].split('<')[0].split('[')[0] == P + e['id']['original'] + v['id']['original'] + 'Inner':
                        self.f(f'{lang}_inner_reference_uses_original_enum_name', f'{w}: refers to {ov["type"]}, declared is {inner_name}')
                    else:
                        self.eq('payload', got_payload, 'struct', w + ' payload')
                        self.eq('inner', ov['inner'], inner_name, w + ' inner struct')
                elif kind == 'struct':
                    self.eq('payload', got_payload, 'struct', w + ' payload')
                    self.members(w, ov['members'], v['fields'], enum_generics,
                                 lambda m, w_=ov['name']: [r for r in R if r['in'] == nm and r['outer'] == 'payload' and r.get('variant') == w_ and r.get('member') == m['name']])
                elif kind == 'newtype':
                    if lang == 'typescript' and contains_unit_option(v['ty']) and got_payload == 'unit':
                        self.f('typescript_option_unit_payload_is_printed_like_unit_variant', w)
                    elif self.eq('payload', got_payload, 'newtype', w + ' payload'):
                        got = [r for r in R if r['in'] == nm and r['outer'] == 'payload' and r.get('variant') == ov['name']]
                        used = [g for g in enum_generics if g in IR.type_ids(v['ty'])]
                        if lang == 'go' and used:
                            self.f('go_enum_generic_parameter_printed_as_type', f'{w}: {ov["type"]}')
                        else:
                            self.refs(w, got, v['ty'], enum_generics)
                        if lang == 'typescript':
                            self.eq('payload_optional', ov.get('optional'), is_opt(v['ty']), w + ' `content?`')
                            self.eq('ts_null_union', (ov.get('optional_detail') or {}).get('null_union'), is_opt(v['ty']) and is_opt(v['ty']['params'][0]),
                                    w + ' `| null` (double option)')
                else:
                    self.eq('payload', got_payload, 'unit', w + ' payload')
            if alg:
                nv = len(e['variants'])
                npay = sum(1 for v in e['variants'] if v['k'] != 'unit')
                nopt = sum(1 for v in e['variants'] if v['k'] == 'tuple' and is_opt(v['ty']))
                want_tag = {'typescript': nv, 'kotlin': 0, 'scala': 0, 'swift': 2 + nv, 'go': 3, 'python': nv}[lang]
                want_content = {'typescript': nv, 'kotlin': npay, 'scala': npay, 'swift': 1 + 2 * npay + nopt, 'go': 2, 'python': npay}[lang]
                self.eq('tag_keys', d['tag_keys'], [e['tag']] * want_tag, f'enum {nm} tag keys')
                self.eq('content_keys', d['content_keys'], [e['content']] * want_content, f'enum {nm} content keys')
                if lang == 'swift':
                    # the ContainerCodingKeys cases: bare key + whether it was back-ticked (a key in SWIFT_KEYWORDS, fix 29 of /repo)
                    self.eq('container_keys', [(c['name'], c['escaped']) for c in d.get('container_keys') or []],
                            [(e['tag'], e['tag'] in SWIFT_KEYWORDS), (e['content'], e['content'] in SWIFT_KEYWORDS)], f'enum {nm} ContainerCodingKeys cases')
                if lang == 'python' and e['generics'] and any(g in IR.type_ids(x) for g in e['generics'] for x in IR.item_types(e)):
                    self.f('python_enum_generics_not_declared', f'enum {nm}{e["generics"]}')
            else:
                self.eq('tag_keys', d['tag_keys'], [], f'enum {nm} tag keys')
                self.eq('content_keys', d['content_keys'], [], f'enum {nm} content keys')
        # ---- consts
        if lang == 'scala':
            if t['consts']:
                self.f('scala_consts_dropped', f'{len(t["consts"])} constants')
            want_consts = 0
        else:
            want_consts = len(t['consts'])
        # ---- counts
        count = collections.Counter(d['kind'] for d in o['definitions'])
        self.eq('count_struct', count['struct'], len(t['structs']) + (0 if lang == 'typescript' else n_inner), 'number of struct definitions')
        self.eq('count_enum', count['enum'], len(t['enums']), 'number of enum definitions')
        self.eq('count_alias', count['alias'], len(t['aliases']), 'number of alias definitions')
        self.eq('count_const', count['const'], want_consts, 'number of const definitions')
        if lang in ('typescript', 'go', 'python'):
            for c in t['consts']:
                self.checks += 1
                if not any(d['kind'] == 'const' and d['value'] == c['value'] for d in o['definitions']):
                    self.f('const_value', f'no constant with value {c["value"]}')
        # ---- helpers
        missing = [h for h in o['helper_uses'] if h not in o['helper_defs']]
        self.checks += 1
        if missing:
            if lang == 'kotlin' and set(missing) <= {'Serializable', 'SerialName', 'JvmInline'} and \
                    (not self.cfg.get('package') or missing == ['JvmInline']):
                self.f('kotlin_helper_used_but_not_imported', f'{missing}')
            elif lang == 'scala' and set(missing) <= {'UByte', 'UShort', 'UInt', 'ULong'}:
                self.f('scala_unsigned_aliases_used_but_not_defined', f'{missing}')
            elif lang == 'python' and set(missing) <= {'parse_rfc3339', 'serialize_datetime_data', 'serialize_binary_data', 'deserialize_binary_data'}:
                self.f('python_translation_functions_used_but_not_defined', f'{missing}')
            else:
                self.f('helper_used_not_defined', f'{missing} (defined: {o["helper_defs"]})')
        # spans are ordered and inside the text
        for d in o['definitions']:
            self.checks += 1
            a, b = d['span']
            if not (1 <= a <= b):
                self.f('span', f'{d["name"]}: span {d["span"]}')
        return self.findings


# ---------------------------------------------------------------------------------------------------
# case material
# ---------------------------------------------------------------------------------------------------
HOSTILE = ['two\nlines', 'ends a block */ here', 'starts /* a block', '"""', 'a """ b', "'''", 'back`tick', '// slashes', '# hash', '*/', '/**',
           'tab\there', 'cr\rhere', '\\', 'trailing backslash \\', '{ brace', '} brace', ')', '"quote', "it's", 'unicode   sep', '@Serializable',
           'case x', 'export type X = string;', 'class X(BaseModel):', '\nval x: Int', '\n}', '*/ export interface I {', '"""\nclass X(BaseModel):\n    pass']


def plant(items, rng):
    items = copy.deepcopy(items)
    def cs(x):
        x['comments'] = [rng.choice(HOSTILE) for _ in range(rng.randint(1, 2))] if rng.random() < 0.5 else x.get('comments', [])
    for s in items['structs']:
        cs(s)
        for f in s['fields']:
            cs(f)
    for e in items['enums']:
        cs(e)
        for v in e['variants']:
            cs(v)
            for f in v.get('fields', []):
                cs(f)
    for a in items['aliases']:
        cs(a)
    return items


def damage(text, rng):
    lines = text.split('\n')
    k = rng.randint(0, 5)
    if not lines:
        return text
    i = rng.randrange(len(lines))
    if k == 0:
        del lines[i]
    elif k == 1:
        lines = lines[:i]
    elif k == 2:
        lines.insert(i, rng.choice(HOSTILE))
    elif k == 3:
        lines[i] = lines[i][:rng.randint(0, len(lines[i]))]
    elif k == 4:
        j = rng.randrange(len(lines))
        lines[i], lines[j] = lines[j], lines[i]
    else:
        lines[i] = lines[i] + rng.choice(HOSTILE)
    return '\n'.join(lines)


def targeted():
    """hand-made item sets for behaviours the generators rarely or never reach: (name, languages, items, expectation);
    expectation None: full agreement up to KNOWN; a KNOWN category: the real tool damages its own text there and the
    extractor has to say so (unparsed / anomalies non-empty), never to invent a structure"""
    S, I = IR.special, IR.mk_id
    def fld(name, renamed=None, ty=None, **kw):
        return dict({'id': I(name, renamed), 'ty': ty or S('String'), 'comments': [], 'has_default': False, 'decorators': []}, **kw)
    def struct(name, fields, **kw):
        return dict({'kind': 'struct', 'id': I(name), 'generics': [], 'fields': fields, 'comments': [], 'decorators': [], 'is_redacted': False}, **kw)
    def enum(name, variants, alg, **kw):
        return dict({'kind': 'enum', 'algebraic': alg, 'tag': 'type' if alg else None, 'content': 'content' if alg else None, 'id': I(name),
                     'generics': [], 'comments': [], 'variants': variants, 'decorators': [], 'is_recursive': False, 'is_redacted': False}, **kw)
    def unit(name, renamed=None):
        return {'k': 'unit', 'id': I(name, renamed), 'comments': []}
    def tup(name, renamed=None, ty=None):
        return {'k': 'tuple', 'id': I(name, renamed), 'comments': [], 'ty': ty or S('String')}
    def items(structs=(), enums=(), aliases=()):
        return {'structs': list(structs), 'enums': list(enums), 'aliases': list(aliases), 'consts': []}
    all_ = LANGS
    esc = ['Gr"een', 'back\\slash', 'tab\there', 'caf\u00e9', 'zero\u200bwidth', 'with space', 'dot.ted', "apos'trophe", 'dollar$', '日本']
    out = [
        # wire names printed with `{:?}`: every language must read back exactly the renamed name
        ('unit enum, names needing escapes', [l for l in all_ if l != 'python'],
         items(enums=[enum('Colors', [unit(f'V{k}', n) for k, n in enumerate(esc)], False)]), None),
        ('unit enum, quote (python escapes only the quote)', ['python'],
         items(enums=[enum('Colors', [unit('Green', 'Gr"een'), unit('Blue', 'bl ue'), unit('Cafe', 'caf\u00e9')], False)]), None),
        ('algebraic enum, names needing escapes', ['typescript', 'scala', 'go'],
         items(enums=[enum('Shape', [tup(f'V{k}', n) for k, n in enumerate(esc)] + [unit('Plain')], True)]), None),
        ('algebraic enum, quote in a name', ['kotlin'], items(enums=[enum('Shape', [tup('A', 'a"b'), unit('Plain')], True)]),
         'kotlin_algebraic_serial_name_not_escaped'),
        ('algebraic enum, quote in a name', ['swift'], items(enums=[enum('Shape', [tup('A', 'a"b'), unit('Plain')], True)]),
         'swift_coding_key_raw_value_not_escaped'),
        ('algebraic enum, quote in a name', ['python'], items(enums=[enum('Shape', [tup('A', 'a"b'), unit('Plain')], True)]),
         'python_alias_and_types_value_not_escaped'),
        ('struct, dashed key with quote and backslash', ['typescript', 'go'],
         items(structs=[struct('Foo', [fld('a', 'da-sh"q\\x'), fld('b', 'caf\u00e9-\u200b', S('Option', S('I32'))), fld('c')])]), None),
        ('struct, dashed key with quote', ['swift'], items(structs=[struct('Foo', [fld('a', 'da-sh"q'), fld('c')])]),
         'swift_coding_key_raw_value_not_escaped'),
        ('struct, renamed key with quote', ['python'], items(structs=[struct('Foo', [fld('a', 'q"uote'), fld('c')])]),
         'python_alias_and_types_value_not_escaped'),
        ('struct, key with a space', all_, items(structs=[struct('Foo', [fld('a', 'two words'), fld('c')])]), None),
        # type overrides on Option fields (go.rs has no generator support in lib/irgen.py)
        ('go type override on Option / default fields', ['go'],
         items(structs=[struct('Foo', [fld('a', ty=S('Option', S('String')), decorators=[['Go', [{'name': 'type', 'value': 'MyType'}]]]),
                                       fld('b', has_default=True, decorators=[['Go', [{'name': 'type', 'value': 'map[string]Other'}]]]),
                                       fld('c', ty=S('Option', S('Vec', S('I32'))))])]), None),
        # python {Enum}Types members collide
        ('python Types member collision', ['python'], items(enums=[enum('E', [tup('A', 'ab'), tup('B', 'Ab'), unit('C', 'a_b')], True)]), None),
        # keywords, digits, unit type, empty things
        ('keywords and odd identifiers', all_,
         items(structs=[struct('catch', [fld('default'), fld('case', ty=S('Option', S('Unit'))), fld('class', 'class'), fld('self'), fld('in', 'in-x')]),
                        struct('Empty', [])],
               enums=[enum('throws', [unit('case'), unit('default'), unit('3D', '3d')], False),
                      enum('switch', [tup('default', ty=IR.simple('catch')), unit('3D'), tup('Type', ty=S('Unit')),
                                      {'k': 'struct', 'id': I('Self'), 'comments': [], 'fields': [fld('init'), fld('x-y', 'x-y')]}], True),
                      enum('NoVariants', [], False)],
               aliases=[{'kind': 'alias', 'id': I('Type'), 'generics': [], 'ty': S('Vec', S('Unit')), 'comments': ['doc'], 'decorators': [], 'is_redacted': False}]), None),
    ]
    return out


def check_shape(o):
    """the observation has the promised shape"""
    assert isinstance(o, dict)
    for k in ('definitions', 'references', 'imports', 'helper_uses', 'helper_defs', 'unparsed', 'anomalies'):
        assert isinstance(o[k], list), k
    assert isinstance(o['header'], str)
    for d in o['definitions']:
        for k in ('kind', 'name', 'generics', 'docs', 'members', 'variants', 'tag_keys', 'content_keys', 'parent', 'type', 'span'):
            assert k in d, k
        assert d['kind'] in ('struct', 'enum', 'alias', 'const', 'helper')
        for m in d['members']:
            for k in ('name', 'wire_key', 'key_binding', 'optional', 'optional_detail', 'type', 'type_raw', 'docs'):
                assert k in m, k
        for v in d['variants']:
            for k in ('name', 'wire_name', 'payload', 'type', 'members', 'docs'):
                assert k in v, k
            assert v['payload'] in ('unit', 'newtype', 'struct')


# ---------------------------------------------------------------------------------------------------
def main():
    args = sys.argv[1:]
    seed, n_prog, n_ir, verbose, only = 1, 480, 480, False, None
    i = 0
    while i < len(args):
        if args[i] == '--seed':
            seed = int(args[i + 1]); i += 2
        elif args[i] == '--progs':
            n_prog = int(args[i + 1]); i += 2
        elif args[i] == '--ir':
            n_ir = int(args[i + 1]); i += 2
        elif args[i] == '--lang':
            only = args[i + 1]; i += 2
        elif args[i] == '-v':
            verbose = True; i += 1
        else:
            print(__doc__); return 2
    for name, fn in (('coq', vf.build_coq), ('driver', vf.build_driver), ('harness', vf.build_harness)):
        ok, msg = fn()
        if not ok:
            print(name, 'build failed:', msg)
            return 1
    rng = random.Random(seed)
    snap = [(f, open(f).read()) for f in sorted(glob.glob('/repo/core/data/tests/*/input.rs'))]
    pg1 = progs.ProgGen(rng, progs.Profile())
    pg2 = progs.ProgGen(rng, progs.Profile(p_rename_type=0.3, dash_in_rename=0.6, p_rename=0.4, p_generic=0.45, p_default=0.25, p_doc=0.5,
                                           allow_const=True))
    programs = [progs.source((pg1 if k % 2 == 0 else pg2).program()) for k in range(n_prog)]
    gen_dt = irgen.Gen(rng, langs_with_datetime=True)
    gen_nodt = irgen.Gen(rng, langs_with_datetime=False)
    itemsets = [(gen_dt if k % 3 == 0 else gen_nodt).items() for k in range(n_ir)]
    exit_code = 0
    grand = {}
    for lang in LANGS:
        if only and lang != only:
            continue
        cfgs = cfgs_for(lang)
        stats = collections.Counter()
        cats = collections.defaultdict(list)
        checks = 0

        def judge(part, truth, r, cfg, tag):
            nonlocal checks
            stats[part + ' cases'] += 1
            if r['impl'][0] != 'ok':
                stats[part + ' tool gave no text (' + r['impl'][0] + ')'] += 1
                return
            obs = extract.extract(lang, r['impl'][1])
            check_shape(obs)
            c = Cmp(lang, cfg, truth, obs, tag)
            fs = c.run()
            checks += c.checks
            unknown = [x for x in fs if x[0] not in KNOWN]
            if not fs:
                stats[part + ' agree'] += 1
            elif not unknown:
                stats[part + ' agree up to known deviations'] += 1
            else:
                stats[part + ' DISAGREE'] += 1
            for cat, det in fs:
                cats[cat].append(det)

        # (a) snapshots
        cases = [(lang, c, src, []) for (f, src) in snap for c in cfgs]
        names = [f.split('/')[-2] for (f, src) in snap for c in cfgs]
        for f, case, r in zip(names, cases, back.run_src(cases)):
            judge('(a) snapshot', r['ir'], r, case[1], f'{f} cfg={json.dumps(case[1])[:60]}')
        # stored outputs: extract without ground truth
        for f in sorted(glob.glob(f'/repo/core/data/tests/*/output.{EXT[lang]}')):
            o = extract.extract(lang, open(f).read())
            check_shape(o)
            stats['(a) stored outputs'] += 1
            bad = o['unparsed'] + [a for a in o['anomalies'] if 'package closer' not in a]
            if bad:
                stats['(a) stored outputs DISAGREE'] += 1
                cats['stored_output_unparsed'].append(f'{f}: {bad[:3]}')
        # (b) programs
        cases = [(lang, cfgs[k % len(cfgs)], src, []) for k, src in enumerate(programs)]
        for k, (case, r) in enumerate(zip(cases, back.run_src(cases))):
            judge('(b) program', r['ir'], r, case[1], f'prog#{k}')
        # (c) item sets
        cases = []
        for k, it in enumerate(itemsets):
            it = dict(it)
            if lang in ('kotlin', 'swift') and k % 4 != 0:
                it['consts'] = []        # write_const returns Err(Unsupported) there: keep most cases alive
            cases.append((lang, cfgs[k % len(cfgs)], it, False))
        res = back.run_ir(cases)
        for k, (case, r) in enumerate(zip(cases, res)):
            judge('(c) item set', case[2], r, case[1], f'ir#{k}')
        # (d) robustness: hostile comments, damaged texts
        hostile = [(lang, cfgs[k % len(cfgs)], plant(dict(it, consts=[] if lang in ('kotlin', 'swift') else it['consts']), rng), False)
                   for k, it in enumerate(itemsets[:150])]
        texts = []
        for case, r in zip(hostile, back.run_ir(hostile)):
            stats['(d) hostile comments'] += 1
            if r['impl'][0] != 'ok':
                continue
            texts.append(r['impl'][1])
            o = extract.extract(lang, r['impl'][1])
            check_shape(o)
            if any('extractor error' in u for u in o['unparsed']):
                stats['(d) hostile comments EXTRACTOR ERROR'] += 1
                cats['extractor_error'].append(str([u for u in o['unparsed'] if 'extractor error' in u][:1]))
            elif o['unparsed'] or [a for a in o['anomalies'] if 'package closer without opener' not in a]:
                stats['(d) hostile comments: damage reported (unparsed/anomalies)'] += 1
            else:
                stats['(d) hostile comments: structure intact'] += 1
                c = Cmp(lang, case[1], case[2], o, 'hostile')
                fs = [x for x in c.run() if x[0] not in KNOWN and x[0] != 'docs']
                if fs:
                    stats['(d) hostile comments: intact but different structure'] += 1
                    cats['hostile_silent_change'].append(fs[0][1])
        for k in range(400):
            tx = damage(rng.choice(texts), rng) if texts else ''
            o = extract.extract(lang, tx)
            check_shape(o)
            stats['(d) damaged texts'] += 1
            if any('extractor error' in u for u in o['unparsed']):
                stats['(d) damaged texts EXTRACTOR ERROR'] += 1
                cats['extractor_error'].append(str([u for u in o['unparsed'] if 'extractor error' in u][:1]))
        # (e) targeted cases
        for name, langs_, its, expect in targeted():
            if lang not in langs_:
                continue
            for cfg in cfgs:
                r = back.run_ir([(lang, cfg, its, False)])[0]
                tag = f'targeted: {name}'
                if expect is None:
                    judge('(e) targeted', its, r, cfg, tag)
                    continue
                stats['(e) targeted cases'] += 1
                if r['impl'][0] != 'ok':
                    stats['(e) targeted tool gave no text (' + r['impl'][0] + ')'] += 1
                    continue
                o = extract.extract(lang, r['impl'][1])
                check_shape(o)
                if o['unparsed'] or [a for a in o['anomalies'] if 'package closer' not in a]:
                    stats['(e) targeted damage reported as expected'] += 1
                    cats[expect].append(f'{(o["unparsed"] + o["anomalies"])[0][:200]}   [{tag}]')
                else:
                    c = Cmp(lang, cfg, its, o, tag)
                    fs = [x for x in c.run() if x[0] not in KNOWN]
                    if fs:
                        stats['(e) targeted DISAGREE'] += 1
                        cats['damage_not_reported'].append(f'expected {expect}: text damaged by the tool but nothing unparsed and {fs[0]}')
                    else:
                        stats['(e) targeted agree'] += 1
        # ---- report
        print(f'== {lang}: {checks} individual comparisons')
        for k in sorted(stats):
            print(f'   {k:70} {stats[k]}')
        known = {c: v for c, v in cats.items() if c in KNOWN}
        unknown = {c: v for c, v in cats.items() if c not in KNOWN}
        if known:
            print('   known deviations of the real tool:')
            for c in sorted(known):
                print(f'     {c} x{len(known[c])}: {KNOWN[c]}')
                print(f'         e.g. {known[c][0][:300]}')
        if unknown:
            exit_code = 1
            print('   DISAGREEMENTS:')
            for c in sorted(unknown):
                print(f'     {c} x{len(unknown[c])}')
                for x in unknown[c][:5 if verbose else 1]:
                    print(f'         e.g. {x[:600]}')
        grand[lang] = (stats, sorted(known), sorted(unknown))
    seen_known = set(c for _, known, _ in grand.values() for c in known)
    never = sorted(c for c in KNOWN if c not in seen_known and (not only or c.startswith(only)))
    if never:
        print('known deviations not observed in this run:', ', '.join(never))
    print('RESULT', 'ok' if exit_code == 0 else 'DISAGREEMENTS REMAIN')
    return exit_code


if __name__ == '__main__':
    sys.exit(main())
