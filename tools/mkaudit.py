#!/usr/bin/env python3
"""Generate coq/Audit/<P>.v from coq/Props/<P>.v: one `Check (name : statement)` pin and one
`Print Assumptions` per theorem. Run by the developer when a Props file changes; the generated file
is committed, and the check only ever *compiles* the committed file, so a statement that is weakened
in Props/ later no longer matches its pin."""
import re, sys, pathlib
root = pathlib.Path(__file__).resolve().parent.parent / 'coq'
for p in sys.argv[1:]:
    src = (root / 'Props' / f'{p}.v').read_text()
    pre = src[:src.index('Theorem ')]
    pre = re.sub(r'\(\*.*?\*\)', '', pre, flags=re.S)
    header = [l for l in pre.splitlines() if l.strip()]
    out = [f'(* Pinned statements for {p}: compiled on every check run. A statement weakened in Props/ fails here. *)']
    out += header
    out.append(f'From TS Require Props.{p}.')
    out.append('')
    for m in re.finditer(r'Theorem (\w+) :(.*?)\nProof\.', src, re.S):
        name, stmt = m.group(1), m.group(2).strip()
        if stmt.endswith('.'):
            stmt = stmt[:-1]
        out.append(f'Goal {stmt}.\nProof. exact Props.{p}.{name}. Qed.')
        out.append(f'Print Assumptions Props.{p}.{name}.')
    (root / 'Audit' / f'{p}.v').write_text('\n'.join(out) + '\n')
    print('wrote', root / 'Audit' / f'{p}.v')
