#!/usr/bin/env python3
"""Byte-level fidelity of one back-end model against the real back end:
   tools/fidelity.py <lang> ['<json list of cfg dicts>'] [--ir N] [--seed S]
runs every snapshot input of /repo/core/data/tests (through parse -> reconcile -> generate_types on
both sides) under each cfg, and N seeded random IR item sets (lib/irgen.py), and prints the diffs."""
import sys, glob, json, difflib, random, pathlib
sys.path.insert(0, str(pathlib.Path(__file__).resolve().parent.parent / 'lib'))
import vf, back, irgen


def show(r, tag):
    print('MISMATCH', tag)
    if r['impl'][0] == 'ok' and r['model'][0] == 'ok':
        for l in list(difflib.unified_diff(r['impl'][1].splitlines(), r['model'][1].splitlines(), 'impl', 'model', lineterm='', n=1))[:16]:
            print('   ', l)
    else:
        print('  impl ', str(r['impl'])[:400])
        print('  model', str(r['model'])[:400])


def main():
    args = sys.argv[1:]
    lang = args[0]
    cfgs = [{}]
    n_ir, seed = 300, 1
    i = 1
    while i < len(args):
        if args[i] == '--ir':
            n_ir = int(args[i + 1]); i += 2
        elif args[i] == '--seed':
            seed = int(args[i + 1]); i += 2
        else:
            cfgs = json.loads(args[i]); i += 1
    for name, fn in (('coq', vf.build_coq), ('driver', vf.build_driver), ('harness', vf.build_harness)):
        ok, msg = fn()
        if not ok:
            print(name, 'build failed:', msg)
            return 1
    files = sorted(glob.glob('/repo/core/data/tests/*/input.rs'))
    cases = [(lang, c, open(f).read(), []) for f in files for c in cfgs]
    tags = [f'{f} cfg={c}' for f in files for c in cfgs]
    res = back.run_src(cases)
    bad = 0
    for r, t in zip(res, tags):
        if not back.same(r['impl'], r['model']):
            bad += 1
            show(r, t)
    kinds = {}
    for r in res:
        kinds[r['impl'][0]] = kinds.get(r['impl'][0], 0) + 1
    print(f'snapshots: {len(res)} cases, {bad} mismatches, impl outcomes {kinds}')
    rng = random.Random(seed)
    g = irgen.Gen(rng)
    ircases = [(lang, rng.choice(cfgs), g.items(), rng.random() < 0.5) for _ in range(n_ir)]
    res = back.run_ir(ircases)
    bad2 = 0
    kinds = {}
    for k, r in enumerate(res):
        kinds[r['impl'][0]] = kinds.get(r['impl'][0], 0) + 1
        if not back.same(r['impl'], r['model']):
            bad2 += 1
            if bad2 <= 5:
                show(r, f'ir case {k} cfg={r["case"][1]}')
                print('   items:', json.dumps(r['case'][2])[:1500])
    print(f'random IR: {len(res)} cases, {bad2} mismatches, impl outcomes {kinds}')
    return 1 if bad or bad2 else 0


if __name__ == '__main__':
    sys.exit(main())
