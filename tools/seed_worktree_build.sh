#!/bin/bash
# tools/seed_worktree_build.sh [<worktree>]: give a fresh git worktree of /verif the compiled Coq files of /verif
# (so that `make` there only rebuilds what is edited): copies *.vo *.glob *.vos *.vok next to the sources and
# gives all of them ONE time stamp newer than every source (equal stamps: make sees nothing out of date).
set -eu
W=$(realpath "${1:-.}")
[ -f "$W/coq/_CoqProject" ] || { echo "not a verif worktree: $W"; exit 2; }
rsync -a --include='*/' --include='*.vo' --include='*.glob' --include='*.vos' --include='*.vok' --exclude='*' /verif/coq/ "$W/coq/"
REF=$(mktemp); touch "$REF"
find "$W/coq" \( -name '*.vo' -o -name '*.glob' -o -name '*.vos' -o -name '*.vok' \) -exec touch -r "$REF" {} +
rm -f "$REF"
( cd "$W/coq" && coq_makefile -f _CoqProject -o Makefile >/dev/null )
echo "seeded $W/coq from /verif/coq; run: cd $W/coq && make -j8"
