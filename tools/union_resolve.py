#!/usr/bin/env python3
"""tools/union_resolve.py <file>...: resolve git merge conflicts by keeping BOTH sides (for files where branches only append:
Props/Cxx.v statements and header Require lines). Regenerate the audit file afterwards."""
import sys, re
for p in sys.argv[1:]:
    s = open(p).read()
    s = re.sub(r'^(<<<<<<< .*|=======|>>>>>>> .*)\n', '', s, flags=re.M)
    open(p, 'w').write(s)
